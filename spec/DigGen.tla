------------------------------ MODULE DigGen ------------------------------
(***************************************************************************)
(* Dig plus a history variable: the sequence of completed API operations   *)
(* with every observation the specification predicts for them.  Each time  *)
(* an operation completes, the history (with the projected state reached)  *)
(* is printed as one JSON line; with the VIEW below hiding hist, log and   *)
(* ret the printed set is a transition cover of the merged state graph:    *)
(* for every distinct abstract state and every operation enabled in it one *)
(* concrete history that reaches the state and performs the operation.     *)
(* The harness replays each line on a real container (model -> code).      *)
(***************************************************************************)
EXTENDS Viz, Json

VARIABLE hist

Snap == [reg |-> reg, decs |-> decs, vals |-> vals, dvals |-> dvals, grps |-> grps,
         dgrps |-> dgrps, called |-> called, dcalled |-> dcalled, created |-> created]

Entry == [op |-> cur'.op, f |-> cur'.f, s |-> cur'.s, v |-> ret'.v, rf |-> ret'.f,
          rn |-> ret'.n, mk |-> ret'.mk, vp |-> ret'.vp, log |-> log']

GenInit == Init /\ hist = <<>>

Emit ==
  IF ~cur'.active
  THEN /\ hist' = Append(hist, Entry)
       /\ PrintT(ToJson([ci |-> ci, opt |-> opt, hist |-> hist', snap |-> Snap',
                         viz |-> Picture', vizerr |-> PictureErr(ret')]))
  ELSE hist' = hist

\* one named action per action of Dig, so that TLC's coverage is reported per action
GCreateScope == (\E s \in Scopes : CreateScope(s)) /\ Emit
GProvide     == (\E f \in Fns : Provide(f)) /\ Emit
GDecorate    == (\E f \in Fns : Decorate(f)) /\ Emit
GBeginInvoke == (\E i \in Fns, s \in Scopes : BeginInvoke(i, s)) /\ Emit
GDescend     == Descend /\ Emit
GUnwind      == Unwind /\ Emit
GExec        == (\E o \in {"ok", "err", "panic"} : Exec(o)) /\ Emit
GEnter       == Enter /\ Emit
GNestBegin   == NestBegin /\ Emit
GNestReturn  == NestReturn /\ Emit

GenNext == GCreateScope \/ GProvide \/ GDecorate \/ GBeginInvoke \/ GDescend \/ GUnwind \/ GExec
           \/ GEnter \/ GNestBegin \/ GNestReturn

GenSpec == GenInit /\ [][GenNext]_<<vars, hist>>

\* registration order matters to the machine only among the feeders of one group in one
\* scope (execution order); the view keeps exactly that
RegView == [f \in RegSet |-> {g \in RegSet : \E j, x \in DOMAIN reg :
              j < x /\ reg[j] = g /\ reg[x] = f /\ Home(f) = Home(g)
              /\ \E k \in KeysOf(f) \cap KeysOf(g) : TRUE}]

GenView == <<ci, opt, created, RegView, decs, vals, dvals, ToSet(grps), dgrps, called, dcalled,
             verified, execs, okn, stack, fail, cur, tried, ninv, nfault>>
=============================================================================

-------------------------------- MODULE Viz --------------------------------
(***************************************************************************)
(* The picture dig.Visualize must draw, as a projection of a Dig state:    *)
(* one cluster per accepted constructor of every scope holding exactly its *)
(* result nodes, one edge per declared dependency (dashed exactly when     *)
(* optional), one node per value group linked to each of its members.      *)
(* With the error of a failed Invoke: the missing types or the failing     *)
(* constructor are the root cause, every constructor that failed because   *)
(* of it is a transitive failure, constructors that did not fail are       *)
(* pruned, and CanVisualizeError holds exactly when such information       *)
(* exists.  (Failures inside decorators are outside the claim.)            *)
(***************************************************************************)
EXTENDS Dig

\* the result nodes of constructor f: one per key of every result (As expands; a flatten
\* result is one node of the element type)
ResultNodes(f) == FlattenSeq([i \in 1..Len(Rs(f)) |-> Rs(f)[i].ks])

\* plain dependency edges of f: [k, dashed]
ParamEdges(f) == LET idx == SelectSeq([j \in 1..Len(Ps(f)) |-> j], LAMBDA j : Ps(f)[j].m \in {"req", "opt"})
                 IN  [x \in 1..Len(idx) |-> [k |-> Ps(f)[idx[x]].k, dashed |-> Ps(f)[idx[x]].m = "opt"]]
\* group dependency edges of f: group keys
GroupEdges(f) == LET idx == SelectSeq([j \in 1..Len(Ps(f)) |-> j], LAMBDA j : Ps(f)[j].m \in {"grp", "soft"})
                 IN  [x \in 1..Len(idx) |-> Ps(f)[idx[x]].k]

GroupKeysOfFn(f) == UNION {ResKeys(f, i) : i \in {x \in DOMAIN Rs(f) : Rs(f)[x].m \in {"grp", "flat"}}}

\* every group that is consumed or fed by an accepted constructor has a node; n = members
GroupNodes ==
  LET ks == UNION {GroupKeysOfFn(f) \cup {GroupEdges(f)[x] : x \in DOMAIN GroupEdges(f)} : f \in RegSet}
      members(k) == Len(FlattenSeq([j \in 1..Len(reg) |->
                         SelectSeq(ResultNodes(reg[j]), LAMBDA r : r = k /\ k \in GroupKeysOfFn(reg[j]))]))
  IN  {[k |-> k, n |-> members(k)] : k \in ks}

Picture ==
  [clusters |-> {[f |-> f, rs |-> ResultNodes(f), ps |-> ParamEdges(f), gps |-> GroupEdges(f)] : f \in RegSet},
   groups   |-> GroupNodes]

(* Failure picture for the descriptor ret of a failed Invoke.  ret.vp lists, innermost first,  *)
(* one entry per wrapping level: key k could not be built because constructor f failed.        *)
InClaim(r) == \A j \in DOMAIN r.vp : ~r.vp[j].d          \* no decorator on the failure path

Can(r) == r.vp # <<>> \/ (r.v = "missing" /\ r.mk # {})

\* result nodes marked as root cause / transitive failure, as <<key, constructor-or-"">>
RootCause(r) ==
  IF r.v = "missing" /\ r.mk # {} THEN {[k |-> k, f |-> ""] : k \in r.mk}
  ELSE IF r.vp # <<>> THEN {[k |-> r.vp[1].k, f |-> r.vp[1].f]}
  ELSE {}
Transitive(r) ==
  LET from == IF r.v = "missing" /\ r.mk # {} THEN 1 ELSE 2
  IN  {[k |-> r.vp[j].k, f |-> r.vp[j].f] : j \in {x \in DOMAIN r.vp : x >= from}}
\* constructors that keep their cluster in the error picture, with their colour
FailedCtors(r) ==
  {[f |-> r.vp[j].f,
    root |-> (j = 1 /\ ~(r.v = "missing" /\ r.mk # {}))] : j \in DOMAIN r.vp}

\* What stays of the picture (pruning): only the constructors on the failure path keep their
\* cluster, with all their results; a kept constructor loses every plain dependency edge whose
\* key is a result of a pruned constructor; only the value groups on the failure path keep their
\* node, linked to their members in kept constructors, and only they keep consumer edges.
Kept(r)         == {r.vp[j].f : j \in DOMAIN r.vp} \cap RegSet
PrunedKeys(r)   == UNION {SingleKeysOf(f) : f \in RegSet \ Kept(r)}
FailedGroups(r) == {r.vp[j].k : j \in {x \in DOMAIN r.vp : r.vp[x].g}}
ErrClusters(r) ==
  {[f |-> f, rs |-> ResultNodes(f),
    ps |-> SelectSeq(ParamEdges(f), LAMBDA e : e.k \notin PrunedKeys(r)),
    gps |-> SelectSeq(GroupEdges(f), LAMBDA k : k \in FailedGroups(r))] : f \in Kept(r)}
ErrGroups(r) ==
  LET members(k) == Len(FlattenSeq([j \in 1..Len(reg) |->
                        IF reg[j] \in Kept(r)
                        THEN SelectSeq(ResultNodes(reg[j]), LAMBDA x : x = k /\ k \in GroupKeysOfFn(reg[j]))
                        ELSE <<>>]))
  IN  {[k |-> k, n |-> members(k)] : k \in FailedGroups(r)}

PictureErr(r) == [can |-> Can(r), inclaim |-> InClaim(r), root |-> RootCause(r),
                  trans |-> Transitive(r), ctors |-> FailedCtors(r),
                  clusters |-> ErrClusters(r), groups |-> ErrGroups(r)]
=============================================================================

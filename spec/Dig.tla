------------------------------- MODULE Dig -------------------------------
(***************************************************************************)
(* uber-go/dig as a state machine.                                         *)
(*                                                                         *)
(* One container tree (a root container and its scopes), the registrations *)
(* made with Provide / Decorate, and the lazy resolver that runs inside    *)
(* Invoke, written as a small-step machine with an explicit stack: one     *)
(* action per critical section of the implementation                       *)
(*   CreateScope, Provide, Decorate, BeginInvoke   (API level)             *)
(*   Descend, Exec, Unwind                         (resolver micro-steps)  *)
(*   Enter, NestBegin, NestReturn   (a user function that, while it runs,  *)
(*                                   calls Invoke on the container again)  *)
(* plus a declarative layer (Source, Feeders, Closure, CyclicInView,       *)
(* CyclicPermissive ...) that knows nothing about stacks and caches,       *)
(* against which the properties C01..C20 are stated as invariants and      *)
(* action properties at the end of the module.                             *)
(*                                                                         *)
(* The machine is implementation-shaped on purpose, so that it can be      *)
(* bound to the code step by step: replay of every behaviour TLC generates *)
(* (DigGen), validation of executions recorded from the code (DigTrace).   *)
(* With FreeOrder = FALSE it is deterministic up to the outcome of user    *)
(* functions and predicts the very order in which the implementation       *)
(* builds things; with FreeOrder = TRUE it is the weakest machine the      *)
(* properties allow in that respect.                                       *)
(*                                                                         *)
(* The catalog (which functions exist, their flat parameter and result     *)
(* lists, the scope they are given to) is data: Cats is a sequence of      *)
(* catalogs and the variable ci says which one this container uses, so one *)
(* TLC run ranges over a family of programs and one trace file may hold    *)
(* many containers.  All identifiers are strings / naturals so that states *)
(* and traces round-trip through JSON.                                     *)
(***************************************************************************)
EXTENDS Integers, Sequences, FiniteSets, TLC, SequencesExt, FiniteSetsExt, DigCats

\* Cats, the sequence of catalogs, is defined by the data module DigCats, which the harness
\* generates per run (harness/cat).  It is a definition and not a CONSTANT on purpose: TLC
\* evaluates a constant-level definition once, but re-evaluates a cfg-substituted constant at
\* every use (measured: 5 min versus 6 s on the same 161k-state family).

CONSTANTS MaxInv,     \* bound on the number of Invoke calls per behaviour
          MaxFaults,  \* bound on the number of failing executions per behaviour
          FaultKinds, \* subset of {"err", "panic"}: outcomes a user function may have besides "ok"
          FreeOrder   \* FALSE: parameters are built in the order the implementation uses (BO);
                      \* TRUE: in any order the properties allow (dig promises no order among
                      \* independent dependencies) - used to judge whether an execution that
                      \* differs from the strict prediction is still a legal one

VARIABLES
  ci,        \* index into Cats
  opt,       \* [defer, recover, dry : BOOLEAN]
  created,   \* set of scopes that exist
  reg,       \* sequence of accepted constructors, registration order
  decs,      \* set of accepted decorators
  vals,      \* set of [s, k, v]: value v cached for single key k in scope s
  dvals,     \* set of [s, k, v]: decorated value
  grps,      \* sequence of [s, k, v]: group members in commit order
  dgrps,     \* set of [s, k, v]: decorated group, v a sequence of values
  called,    \* set of constructors whose results were committed
  dcalled,   \* set of decorators that ran to completion
  verified,  \* set of scopes whose graph was verified acyclic since its last change
  execs,     \* function id -> number of times the user function was entered
  okn,       \* function id -> execution number of its successful execution (0: none)
  stack,     \* resolver stack: sequence of frames (see NewFrame); nested Invokes stack up on it
  fail,      \* failure being propagated, or NoFail
  cur,       \* the API call in progress / last completed: [op, f, s, active]
  tried,     \* functions already offered to Provide / Decorate (each at most once)
  ninv, nfault, \* counters for the bounds
  log,       \* events of the current / last call (exec, cb, nest), cleared when a call begins
  ret        \* descriptor of the last completed call

vars == <<ci, opt, created, reg, decs, vals, dvals, grps, dgrps, called, dcalled,
          verified, execs, okn, stack, fail, cur, tried, ninv, nfault, log, ret>>

\* everything except the output-only variables log and ret
core == <<ci, opt, created, reg, decs, vals, dvals, grps, dgrps, called, dcalled,
          verified, execs, okn, stack, fail, cur, tried, ninv, nfault>>

-----------------------------------------------------------------------------
(* Catalog access *)

Cat       == Cats[ci]
Fns       == DOMAIN Cat.fns
Fn(f)     == Cat.fns[f]
Kind(f)   == Fn(f).kind            \* "ctor" | "dec" | "inv"
Ps(f)     == Fn(f).ps              \* flat parameters [k, m, op], declaration order; m in req|opt|grp|soft
Nest(f)   == Fn(f).nest            \* Invoke calls [i, s] the body of f makes on the container, in order
Rs(f)     == Fn(f).rs              \* flat results [ks, m, n]; m in one|grp|flat
Root      == "r"
Scopes    == DOMAIN Cat.parent
Parent(s) == Cat.parent[s]

RECURSIVE Path(_)
Path(s)    == IF s = Root THEN <<s>> ELSE <<s>> \o Path(Parent(s))
PathSet(s) == ToSet(Path(s))
Subtree(s) == {t \in Scopes : s \in PathSet(t)}

View(f) == Fn(f).scope                                 \* the scope the function was given to
Home(f) == IF Fn(f).exp THEN Root ELSE Fn(f).scope     \* where its registration and results live

\* Cat.order, if not empty, fixes the order in which the functions it lists are registered and
\* delays Invokes until all of them were offered (a bound on the exploration of large catalogs)
InOrder(f) == Cat.order # <<>> /\ f \in ToSet(Cat.order) =>
                 f = Cat.order[Cardinality(tried \cap ToSet(Cat.order)) + 1]
AllOffered == ToSet(Cat.order) \subseteq tried

Ctors  == {f \in Fns : Kind(f) = "ctor"}
Decors == {f \in Fns : Kind(f) = "dec"}
Invs   == {f \in Fns : Kind(f) = "inv"}
\* functions that are only ever invoked from inside another user function
NestedInvs == UNION {{Nest(f)[j].i : j \in DOMAIN Nest(f)} : f \in Fns}

ResKeys(f, i)   == ToSet(Rs(f)[i].ks)
KeysOf(f)       == UNION {ResKeys(f, i) : i \in DOMAIN Rs(f)}
SingleIdx(f)    == {i \in DOMAIN Rs(f) : Rs(f)[i].m = "one"}
SingleKeysOf(f) == UNION {ResKeys(f, i) : i \in SingleIdx(f)}
ResIdx(f, k)    == CHOOSE i \in DOMAIN Rs(f) : k \in ResKeys(f, i)
ParamKeys(f)    == {Ps(f)[j].k : j \in DOMAIN Ps(f)}

\* a single key occurs twice among the results of f
DupWithin(f) == \E i, j \in SingleIdx(f) :
                   \/ i < j /\ ResKeys(f, i) \cap ResKeys(f, j) # {}
                   \/ i = j /\ Len(Rs(f)[i].ks) # Cardinality(ResKeys(f, i))

-----------------------------------------------------------------------------
(* Values *)

Zero == [f |-> "", n |-> 0, i |-> 0, e |-> 0]
Val(f, n, i, e) == [f |-> f, n |-> n, i |-> i, e |-> e]

\* a failure being propagated: class c, root cause (f, n), md = "the chain contains a
\* missing-dependencies error", from = the function whose call just failed, mk = missing keys,
\* path = one entry [k, f, g, d] per wrapping level, innermost first: parameter key k could not be
\* built because calling f failed (g: through a group parameter; d: f is a decorator)
NoFail == [c |-> "", f |-> "", n |-> 0, md |-> FALSE, from |-> "", mk |-> {}, path |-> <<>>]
Failure(c, f, n, md, from, mk) == [c |-> c, f |-> f, n |-> n, md |-> md, from |-> from, mk |-> mk, path |-> <<>>]

NoCall == [op |-> "", f |-> "", s |-> "", active |-> FALSE, pre |-> {}]
NoRes  == [v |-> "", f |-> "", n |-> 0]
Ret(v, f, n, mk) == [v |-> v, f |-> f, n |-> n, mk |-> mk, vp |-> <<>>]
RetP(v, f, n, mk, vp) == [v |-> v, f |-> f, n |-> n, mk |-> mk, vp |-> vp]

-----------------------------------------------------------------------------
(* Registrations as the stores see them *)

RegSet        == ToSet(reg)
ProvsAt(s, k) == SelectSeq(reg, LAMBDA f : Home(f) = s /\ k \in KeysOf(f))
DecAt(s, k)   == {d \in decs : Fn(d).scope = s /\ k \in KeysOf(d)}
TheDecAt(s, k) == CHOOSE d \in DecAt(s, k) : TRUE

HasVal(s, k)  == \E e \in vals : e.s = s /\ e.k = k
ValAt(s, k)   == (CHOOSE e \in vals : e.s = s /\ e.k = k).v
HasDVal(s, k) == \E e \in dvals : e.s = s /\ e.k = k
DValAt(s, k)  == (CHOOSE e \in dvals : e.s = s /\ e.k = k).v
HasDGrp(s, k) == \E e \in dgrps : e.s = s /\ e.k = k
DGrpAt(s, k)  == (CHOOSE e \in dgrps : e.s = s /\ e.k = k).v
MembersAt(s, k) == LET ms == SelectSeq(grps, LAMBDA e : e.s = s /\ e.k = k)
                   IN  [j \in 1..Len(ms) |-> ms[j].v]

OnStack(f)  == \E j \in DOMAIN stack : stack[j].f = f
StackDecs   == {stack[j].f : j \in {x \in DOMAIN stack : Kind(stack[x].f) = "dec"}}

\* findMissingDependencies: a required single key is missing iff no provider on the path to
\* the root and no decorated value cached in the checking scope itself
Shallow(f, s) ==
  {Ps(f)[j].k : j \in {x \in DOMAIN Ps(f) :
        /\ Ps(f)[x].m = "req"
        /\ \A t \in PathSet(s) : ProvsAt(t, Ps(f)[x].k) = <<>>
        /\ ~HasDVal(s, Ps(f)[x].k)}}

-----------------------------------------------------------------------------
(* Build order of the parameters of a function (paramList.BuildList / paramObject.Build). *)
(* Every flat parameter carries op, the path of parameter objects that hold it: <<>> for  *)
(* a positional parameter, <<o>> for a direct field of the top-level object o, <<o, x>>   *)
(* for a field of the object nested in o as x, and so on; the fields of one object are    *)
(* contiguous.  Positional parameters and the fields of an object are built in            *)
(* declaration order - a nested object is built completely at the position of its field - *)
(* except that the soft groups that are direct fields of an object are built after all    *)
(* its other fields.                                                                      *)

\* length of the longest common prefix of two paths
Common(a, b) == Max({d \in 0..Min({Len(a), Len(b)}) : SubSeq(a, 1, d) = SubSeq(b, 1, d)})
\* 1 iff parameter j is a soft group that is a direct field of the object at depth d
SoftRank(ps, j, d) == IF d > 0 /\ Len(ps[j].op) = d /\ ps[j].m = "soft" THEN 1 ELSE 0
BLess(ps, a, b) ==
  LET d  == Common(ps[a].op, ps[b].op)
      sa == SoftRank(ps, a, d)  sb == SoftRank(ps, b, d)
  IN  sa < sb \/ (sa = sb /\ a < b)
BO(f) == SetToSortSeq(1..Len(Ps(f)), LAMBDA a, b : BLess(Ps(f), a, b))

-----------------------------------------------------------------------------
(* Cycle predicates (declarative) *)

\* constructors that are nodes of the graph of scope s
GraphNodes(s, R) == {f \in R : Home(f) \in PathSet(s)}
\* edge f -> g in the graph of scope s: some parameter key of f is provided by g, g visible from s
EdgeIn(s, R, f, g) == g \in GraphNodes(s, R) /\ ParamKeys(f) \cap KeysOf(g) # {}

RECURSIVE ReachFrom(_, _, _, _)
\* nodes reachable from the set X in >= 0 steps, by fixpoint iteration (u = fuel)
ReachFrom(X, Succ(_), U, u) ==
  LET Y == X \cup UNION {Succ(x) \cap U : x \in X}
  IN  IF Y = X \/ u = 0 THEN X ELSE ReachFrom(Y, Succ, U, u - 1)

CyclicOn(N, E(_, _)) ==
  \E f \in N : LET Succ(x) == {g \in N : E(x, g)}
               IN  f \in ReachFrom(Succ(f), Succ, N, Cardinality(N))

CyclicInView(s, R) == CyclicOn(GraphNodes(s, R), LAMBDA f, g : EdgeIn(s, R, f, g))

\* most permissive reading: f -> g if some scope sees both; decorators count as nodes:
\* consumer of k -> decorator of k, decorator -> providers / decorators of its parameters
SeesBoth(a, b) == \E s \in Scopes : a \in PathSet(s) /\ b \in PathSet(s)
PermNodes(R, D) == R \cup D
PermEdge(R, D, f, g) ==
  /\ g \in R \cup D
  /\ f # g \/ Kind(f) = "ctor"
  /\ ParamKeys(f) \cap KeysOf(g) # {}
  /\ SeesBoth(IF Kind(f) = "dec" THEN Fn(f).scope ELSE Home(f),
              IF Kind(g) = "dec" THEN Fn(g).scope ELSE Home(g))
CyclicPermissive(R, D) == CyclicOn(PermNodes(R, D), LAMBDA f, g : PermEdge(R, D, f, g))

-----------------------------------------------------------------------------
(* Initial states *)

TypeOK ==
  /\ ci \in DOMAIN Cats
  /\ created \subseteq Scopes /\ Root \in created
  /\ RegSet \subseteq Ctors /\ decs \subseteq Decors
  /\ called \subseteq RegSet /\ dcalled \subseteq decs
  /\ verified \subseteq created
  /\ tried \subseteq Fns

\* the initial state of a container over catalog c with options o
InitWith(c, o) ==
  /\ ci = c
  /\ opt = o
  /\ created = {Root}
  /\ reg = <<>> /\ decs = {}
  /\ vals = {} /\ dvals = {} /\ grps = <<>> /\ dgrps = {}
  /\ called = {} /\ dcalled = {}
  /\ verified = {}
  /\ execs = [f \in DOMAIN Cats[c].fns |-> 0]
  /\ okn   = [f \in DOMAIN Cats[c].fns |-> 0]
  /\ stack = <<>> /\ fail = NoFail /\ cur = NoCall
  /\ tried = {} /\ ninv = 0 /\ nfault = 0
  /\ log = <<>> /\ ret = Ret("", "", 0, {})

Init == \E c \in DOMAIN Cats : \E o \in ToSet(Cats[c].opts) : InitWith(c, o)

Idle == ~cur.active

Done(op, f, s, r) ==
  /\ cur' = [op |-> op, f |-> f, s |-> s, active |-> FALSE, pre |-> {}]
  /\ ret' = r
  /\ log' = <<>>

-----------------------------------------------------------------------------
(* API level *)

CreateScope(s) ==
  /\ Idle /\ s \in Scopes \ created /\ Parent(s) \in created
  /\ created' = created \cup {s}
  /\ Done("scope", "", s, Ret("ok", "", 0, {}))
  /\ UNCHANGED <<ci, opt, reg, decs, vals, dvals, grps, dgrps, called, dcalled, verified,
                 execs, okn, stack, fail, tried, ninv, nfault>>

\* the verdict dig must give for Provide(f) in the current state
ProvideVerdict(f) ==
  LET h == Home(f) IN
  IF Fn(f).inv # "" THEN "invalid"
  ELSE IF DupWithin(f) \/ \E k \in SingleKeysOf(f) : ProvsAt(h, k) # <<>> THEN "dup"
  ELSE IF Rs(f) = <<>> THEN "invalid"
  ELSE IF ~opt.defer /\ \E s \in Subtree(h) \cap created : CyclicInView(s, RegSet \cup {f}) THEN "cycle"
  ELSE "ok"

Provide(f) ==
  /\ Idle /\ f \in Ctors \ tried /\ View(f) \in created /\ InOrder(f)
  /\ tried' = tried \cup {f}
  /\ LET v == ProvideVerdict(f) IN
     /\ Done("provide", f, View(f), Ret(v, "", 0, {}))
     /\ IF v = "ok"
        THEN /\ reg' = Append(reg, f)
             /\ verified' = IF opt.defer THEN verified \ Subtree(Home(f))
                            ELSE verified \cup (Subtree(Home(f)) \cap created)
        ELSE UNCHANGED <<reg, verified>>
  /\ UNCHANGED <<ci, opt, created, decs, vals, dvals, grps, dgrps, called, dcalled,
                 execs, okn, stack, fail, ninv, nfault>>

DecorateVerdict(d) ==
  IF Fn(d).inv # "" THEN "invalid"
  ELSE IF \E k \in KeysOf(d) : DecAt(Fn(d).scope, k) # {} THEN "dup"
  ELSE "ok"

Decorate(d) ==
  /\ Idle /\ d \in Decors \ tried /\ Fn(d).scope \in created /\ InOrder(d)
  /\ tried' = tried \cup {d}
  /\ LET v == DecorateVerdict(d) IN
     /\ Done("decorate", d, Fn(d).scope, Ret(v, "", 0, {}))
     /\ decs' = IF v = "ok" THEN decs \cup {d} ELSE decs
  /\ UNCHANGED <<ci, opt, created, reg, vals, dvals, grps, dgrps, called, dcalled, verified,
                 execs, okn, stack, fail, ninv, nfault>>

\* a frame: function f being prepared as seen from scope view; bd = the parameters already built
\* (declaration indices), cj = the parameter being built (0: none chosen yet);
\* ph = "build" (arguments), "run" (the user function is running and may call Invoke: ni = its
\* next nested call), "done" (a nested Invoke finished with result res); pre = constructors
\* already called when this Invoke began (Invoke frames only)
NewFrame(f, s) == [f |-> f, view |-> s, bd |-> {}, cj |-> 0, args |-> [j \in 1..Len(Ps(f)) |-> <<>>],
                   ph |-> "build", ni |-> 1, pre |-> {}, res |-> NoRes]
InvFrame(i, s) == [NewFrame(i, s) EXCEPT !.pre = called]

BeginInvoke(i, s) ==
  /\ Idle /\ i \in Invs \ NestedInvs /\ s \in created /\ ninv < MaxInv /\ AllOffered
  /\ ninv' = ninv + 1
  /\ LET mk == Shallow(i, s) IN
     IF Fn(i).inv # "" THEN
        /\ Done("invoke", i, s, Ret("invalid", "", 0, {}))
        /\ UNCHANGED <<stack, verified>>
     ELSE IF mk # {} THEN
        /\ Done("invoke", i, s, Ret("missing", i, 0, mk))
        /\ UNCHANGED <<stack, verified>>
     ELSE IF s \notin verified /\ CyclicInView(s, RegSet) THEN
        /\ Done("invoke", i, s, Ret("cycle", "", 0, {}))
        /\ UNCHANGED <<stack, verified>>
     ELSE
        /\ verified' = verified \cup {s}
        /\ stack' = <<InvFrame(i, s)>>
        /\ cur' = [op |-> "invoke", f |-> i, s |-> s, active |-> TRUE, pre |-> called]
        /\ log' = <<>>
        /\ UNCHANGED ret
  /\ UNCHANGED <<ci, opt, created, reg, decs, vals, dvals, grps, dgrps, called, dcalled,
                 execs, okn, fail, tried, nfault>>

-----------------------------------------------------------------------------
(* Resolver micro-steps *)

Top     == stack[Len(stack)]
TopJ    == Top.cj                        \* declaration index of the parameter being built
TopP    == Ps(Top.f)[TopJ]

\* the parameters the top frame may turn to next: the one in progress; else, strictly, the next
\* in build order; freely, any unbuilt one - except that a soft group that is a direct field of
\* an object waits until every other field of that object (nested objects included) is built
SoftDirect(ps, j) == ps[j].m = "soft" /\ Len(ps[j].op) > 0
InObjectOf(ps, x, j) == Common(ps[x].op, ps[j].op) = Len(ps[j].op)
MayBuild(fr, j) ==
  LET ps == Ps(fr.f) IN
  SoftDirect(ps, j) => \A x \in DOMAIN ps \ {j} :
      (InObjectOf(ps, x, j) /\ ~(SoftDirect(ps, x) /\ Len(ps[x].op) = Len(ps[j].op))) => x \in fr.bd
NextParams(fr) ==
  IF fr.cj # 0 THEN {fr.cj}
  ELSE IF FreeOrder THEN {j \in DOMAIN Ps(fr.f) \ fr.bd : MayBuild(fr, j)}
  ELSE {BO(fr.f)[Cardinality(fr.bd) + 1]}
Pop     == SubSeq(stack, 1, Len(stack) - 1)

Fill(a)     == [t |-> "fill", a |-> a, f |-> "", s |-> "", d |-> NoFail]
Push(f, s)  == [t |-> "push", a |-> <<>>, f |-> f, s |-> s, d |-> NoFail]
FailO(d)    == [t |-> "fail", a |-> <<>>, f |-> "", s |-> "", d |-> d]

\* paramSingle.Build for key k seen from scope view
ResolveSingle(p, view) ==
  LET path      == Path(view)
      decScopes == SelectSeq(path, LAMBDA s : \E d \in DecAt(s, p.k) : ~OnStack(d))
      dvScopes  == SelectSeq(path, LAMBDA s : HasDVal(s, p.k))
      hitScopes == SelectSeq(path, LAMBDA s : HasVal(s, p.k) \/ ProvsAt(s, p.k) # <<>>)
  IN
  IF decScopes # <<>> THEN
     LET s == decScopes[1]
         d == TheDecAt(s, p.k)
     IN  IF d \in dcalled THEN Fill(<<DValAt(s, p.k)>>)
         ELSE IF Shallow(d, s) # {}
              THEN FailO(Failure("missing", d, 0, TRUE, d, Shallow(d, s)))
         ELSE Push(d, s)
  ELSE IF dvScopes # <<>> THEN Fill(<<DValAt(dvScopes[1], p.k)>>)
  ELSE IF hitScopes = <<>> THEN
     IF p.m = "opt" THEN Fill(<<Zero>>)
     ELSE FailO(Failure("missing", Top.f, 0, FALSE, "", {p.k}))
  ELSE
     LET s == hitScopes[1] IN
     IF HasVal(s, p.k) THEN Fill(<<ValAt(s, p.k)>>)
     ELSE LET n == ProvsAt(s, p.k)[1] IN
          IF OnStack(n) THEN FailO(Failure("cycle", n, 0, FALSE, n, {}))
          ELSE IF Shallow(n, View(n)) # {}
               THEN FailO(Failure("missing", n, 0, TRUE, n, Shallow(n, View(n))))
          ELSE Push(n, View(n))

\* feeders of group k not yet called, as seen from scope view: nearest scope first, registration
\* order inside a scope
Uncalled(k, view) ==
  LET path == Path(view) IN
  FlattenSeq([j \in 1..Len(path) |-> SelectSeq(ProvsAt(path[j], k), LAMBDA n : n \notin called)])
\* which uncalled feeder a hard group parameter may call next: strictly the first, freely any
\* ("" stands for the choice when there is nothing to choose)
FeederPicks(p, view) ==
  IF p.m = "grp" /\ Uncalled(p.k, view) # <<>>
  THEN (IF FreeOrder THEN ToSet(Uncalled(p.k, view)) ELSE {Uncalled(p.k, view)[1]})
  ELSE {""}

\* paramGroupedSlice.Build for group key k seen from scope view; pick = the feeder to call next
ResolveGroup(p, view, pick) ==
  LET path     == Path(view)
      \* group decorators that still have to run, root first
      readyDs  == SelectSeq(Reverse(path),
                     LAMBDA s : \E d \in DecAt(s, p.k) : ~OnStack(d) /\ d \notin dcalled)
      dgScopes == SelectSeq(path, LAMBDA s : HasDGrp(s, p.k))
      \* feeders not yet called: nearest scope first, registration order inside a scope
      feeders  == FlattenSeq([j \in 1..Len(path) |->
                     SelectSeq(ProvsAt(path[j], p.k), LAMBDA n : n \notin called)])
  IN
  IF readyDs # <<>> THEN
     LET s == readyDs[1]
         d == TheDecAt(s, p.k)
     IN  IF Shallow(d, s) # {}
         THEN FailO(Failure("missing", d, 0, TRUE, d, Shallow(d, s)))
         ELSE Push(d, s)
  ELSE IF dgScopes # <<>> THEN Fill(DGrpAt(dgScopes[1], p.k))
  ELSE IF p.m = "grp" /\ feeders # <<>> THEN
     LET n == pick IN
     IF OnStack(n) THEN FailO(Failure("cycle", n, 0, FALSE, n, {}))
     ELSE IF Shallow(n, View(n)) # {}
          THEN FailO(Failure("missing", n, 0, TRUE, n, Shallow(n, View(n))))
     ELSE Push(n, View(n))
  ELSE Fill(FlattenSeq([j \in 1..Len(path) |-> MembersAt(path[j], p.k)]))

Resolve(p, view, pick) == IF p.m \in {"grp", "soft"} THEN ResolveGroup(p, view, pick)
                          ELSE ResolveSingle(p, view)

Building == cur.active /\ fail = NoFail /\ stack # <<>> /\ Top.ph = "build" /\ Top.bd # DOMAIN Ps(Top.f)
Ready    == cur.active /\ fail = NoFail /\ stack # <<>> /\ Top.ph = "build" /\ Top.bd = DOMAIN Ps(Top.f)
Running  == cur.active /\ fail = NoFail /\ stack # <<>> /\ Top.ph = "run"
\* the body of f calls Invoke (never in a dry container: bodies do not run there)
HasNest(f) == ~opt.dry /\ Nest(f) # <<>>

\* the innermost Invoke in progress: the frame of its invoked function
InvIdx == CHOOSE j \in DOMAIN stack : Kind(stack[j].f) = "inv" /\
             \A x \in DOMAIN stack : x > j => Kind(stack[x].f) # "inv"
CurInv == stack[InvIdx]

SetTop(fr) == [stack EXCEPT ![Len(stack)] = fr]

Descend ==
  /\ Building
  /\ \E j \in NextParams(Top) : \E pick \in FeederPicks(Ps(Top.f)[j], Top.view) :
     LET o == Resolve(Ps(Top.f)[j], Top.view, pick) IN
     CASE o.t = "fill" ->
            /\ stack' = SetTop([Top EXCEPT !.args[j] = o.a, !.bd = @ \cup {j}, !.cj = 0])
            /\ UNCHANGED fail
       [] o.t = "push" ->
            /\ stack' = Append(SetTop([Top EXCEPT !.cj = j]), NewFrame(o.f, o.s))
            /\ UNCHANGED fail
       [] o.t = "fail" ->
            /\ fail' = o.d
            /\ stack' = SetTop([Top EXCEPT !.cj = j])
  /\ UNCHANGED <<ci, opt, created, reg, decs, vals, dvals, grps, dgrps, called, dcalled,
                 verified, execs, okn, cur, tried, ninv, nfault, log, ret>>

\* the call ends: verdict from the failure that reached the bottom of the stack
Finish(r) ==
  /\ cur' = [cur EXCEPT !.active = FALSE]
  /\ ret' = r
  /\ stack' = <<>>
  /\ fail' = NoFail

\* the Invoke whose invoked-function frame is on top of the stack ends with result r: the call
\* itself if it is the only frame, else a nested Invoke, whose result goes to the function that
\* made it (NestReturn)
EndInvoke(r) ==
  IF Len(stack) = 1 THEN Finish(r)
  ELSE /\ stack' = SetTop([Top EXCEPT !.ph = "done", !.res = [v |-> r.v, f |-> r.f, n |-> r.n]])
       /\ fail' = NoFail
       /\ UNCHANGED <<cur, ret>>

Unwind ==
  /\ cur.active /\ fail # NoFail /\ stack # <<>>
  /\ IF /\ fail.from # "" /\ Kind(fail.from) = "ctor"
        /\ TopP.m = "opt" /\ fail.md
     THEN \* optional dependency whose constructor lacks dependencies: zero value
          /\ stack' = SetTop([Top EXCEPT !.args[TopJ] = <<Zero>>, !.bd = @ \cup {TopJ}, !.cj = 0])
          /\ fail' = NoFail
          /\ UNCHANGED <<cur, ret>>
     ELSE LET step == IF fail.from = "" THEN <<>>
                      ELSE <<[k |-> TopP.k, f |-> fail.from, g |-> TopP.m \in {"grp", "soft"},
                              d |-> Kind(fail.from) = "dec"]>>
          IN
          IF Kind(Top.f) = "inv"
          THEN EndInvoke(RetP(fail.c, fail.f, fail.n, fail.mk, fail.path \o step))
          ELSE /\ stack' = Pop
               /\ fail' = [fail EXCEPT !.from = Top.f, !.path = @ \o step]
               /\ UNCHANGED <<cur, ret>>
  /\ UNCHANGED <<ci, opt, created, reg, decs, vals, dvals, grps, dgrps, called, dcalled,
                 verified, execs, okn, tried, ninv, nfault, log>>

\* results a successful execution number n of f commits
SingleEntries(f, n, s) ==
  {[s |-> s, k |-> k, v |-> Val(f, n, i, 0)] : <<i, k>> \in
       {<<i, k>> \in SingleIdx(f) \X KeysOf(f) : k \in ResKeys(f, i)}}

GroupEntriesOf(f, n, s, i) ==
  LET r == Rs(f)[i] IN
  IF r.m = "grp"  THEN [j \in 1..Len(r.ks) |-> [s |-> s, k |-> r.ks[j], v |-> Val(f, n, i, 0)]]
  ELSE IF r.m = "flat" THEN [e \in 1..(IF opt.dry THEN 0 ELSE r.n) |-> [s |-> s, k |-> r.ks[1], v |-> Val(f, n, i, e)]]
  ELSE <<>>
GroupEntries(f, n, s) == FlattenSeq([i \in 1..Len(Rs(f)) |-> GroupEntriesOf(f, n, s, i)])

\* what a decorator stores for a decorated group: a fresh slice of r.n elements
DecGroupEntries(d, n, s) ==
  {[s |-> s, k |-> Rs(d)[i].ks[1], v |-> [e \in 1..(IF opt.dry THEN 0 ELSE Rs(d)[i].n) |-> Val(d, n, i, e)]] :
      i \in {x \in DOMAIN Rs(d) : Rs(d)[x].m = "grp"}}

\* inv / is: the innermost Invoke in progress (its function and scope)
ExecEvent(f, n, o) == [t |-> "exec", f |-> f, n |-> n, o |-> o, view |-> Top.view,
                       args |-> Top.args, xs |-> StackDecs, pre |-> CurInv.pre, e |-> "", rt |-> 0,
                       inv |-> CurInv.f, is |-> CurInv.view]
CbEvent(f, n, e)   == [t |-> "cb", f |-> f, n |-> n, o |-> "", view |-> Top.view,
                       args |-> <<>>, xs |-> {}, pre |-> {}, e |-> e, rt |-> Fn(f).dur,
                       inv |-> "", is |-> ""]
\* a nested Invoke of function i on scope s ended with verdict v and root cause (rf, rn)
NestEvent(i, s, v, rf, rn) == [t |-> "nest", f |-> i, n |-> rn, o |-> v, view |-> s,
                       args |-> <<>>, xs |-> {}, pre |-> {}, e |-> rf, rt |-> 0, inv |-> "", is |-> ""]

Outcomes == IF opt.dry \/ nfault >= MaxFaults THEN {"ok"} ELSE {"ok"} \cup FaultKinds

\* the function of the top frame is entered; its body will call Invoke before it returns
Enter ==
  /\ Ready /\ HasNest(Top.f)
  /\ stack' = SetTop([Top EXCEPT !.ph = "run"])
  /\ execs' = [execs EXCEPT ![Top.f] = @ + 1]
  /\ UNCHANGED <<ci, opt, created, reg, decs, vals, dvals, grps, dgrps, called, dcalled,
                 verified, okn, fail, cur, tried, ninv, nfault, log, ret>>

\* the running function of the top frame makes its next Invoke call: the same checks as
\* BeginInvoke; the resolver then works on top of the frames that are already there (so a
\* constructor that is being built or is running counts as on the stack)
NestBegin ==
  /\ Running /\ Top.ni <= Len(Nest(Top.f))
  /\ LET c  == Nest(Top.f)[Top.ni]
         mk == Shallow(c.i, c.s)
         skip(v, rf) == /\ stack' = SetTop([Top EXCEPT !.ni = @ + 1])
                        /\ log' = Append(log, NestEvent(c.i, c.s, v, rf, 0))
                        /\ UNCHANGED verified
     IN
     IF c.s \notin created \/ Fn(c.i).inv # "" THEN skip("invalid", "")
     ELSE IF mk # {} THEN skip("missing", c.i)
     ELSE IF c.s \notin verified /\ CyclicInView(c.s, RegSet) THEN skip("cycle", "")
     ELSE /\ verified' = verified \cup {c.s}
          /\ stack' = Append(stack, InvFrame(c.i, c.s))
          /\ UNCHANGED log
  /\ UNCHANGED <<ci, opt, created, reg, decs, vals, dvals, grps, dgrps, called, dcalled,
                 execs, okn, fail, cur, tried, ninv, nfault, ret>>

\* a nested Invoke has ended: its result is handed to the function that made the call
NestReturn ==
  /\ cur.active /\ fail = NoFail /\ Len(stack) > 1 /\ Top.ph = "done"
  /\ LET below == stack[Len(stack) - 1] IN
     /\ stack' = [Pop EXCEPT ![Len(stack) - 1] = [below EXCEPT !.ni = @ + 1]]
     /\ log' = Append(log, NestEvent(Top.f, Top.view, Top.res.v, Top.res.f, Top.res.n))
  /\ UNCHANGED <<ci, opt, created, reg, decs, vals, dvals, grps, dgrps, called, dcalled,
                 verified, execs, okn, fail, cur, tried, ninv, nfault, ret>>

\* the function of the top frame runs to its end (its arguments are complete and, if its body
\* calls Invoke, all those calls have returned)
Exec(o) ==
  /\ (Ready /\ ~HasNest(Top.f)) \/ (Running /\ Top.ni > Len(Nest(Top.f)))
  /\ o \in Outcomes
  /\ LET f == Top.f
         n == IF Top.ph = "run" THEN execs[f] ELSE execs[f] + 1
         k == Kind(f)
         evs == (IF opt.dry THEN <<>> ELSE <<ExecEvent(f, n, o)>>)
                \o (IF Fn(f).cb /\ k # "inv"
                    THEN <<CbEvent(f, n, CASE o = "ok" -> "nil" [] o = "err" -> "own"
                                             [] OTHER -> IF opt.recover THEN "panic" ELSE "any")>>
                    ELSE <<>>)
     IN
     /\ execs' = [execs EXCEPT ![f] = n]
     /\ log' = log \o evs
     /\ nfault' = IF o = "ok" THEN nfault ELSE nfault + 1
     /\ CASE o = "ok" /\ k = "ctor" ->
               /\ vals' = vals \cup SingleEntries(f, n, Home(f))
               /\ grps' = grps \o GroupEntries(f, n, Home(f))
               /\ called' = called \cup {f}
               /\ okn' = [okn EXCEPT ![f] = n]
               /\ stack' = Pop
               /\ UNCHANGED <<dvals, dgrps, dcalled, fail, cur, ret>>
          [] o = "ok" /\ k = "dec" ->
               /\ dvals' = dvals \cup SingleEntries(f, n, Fn(f).scope)
               /\ dgrps' = dgrps \cup DecGroupEntries(f, n, Fn(f).scope)
               /\ dcalled' = dcalled \cup {f}
               /\ okn' = [okn EXCEPT ![f] = n]
               /\ stack' = Pop
               /\ UNCHANGED <<vals, grps, called, fail, cur, ret>>
          [] o = "ok" /\ k = "inv" ->
               /\ okn' = [okn EXCEPT ![f] = n]
               /\ EndInvoke(Ret("ok", "", 0, {}))
               /\ UNCHANGED <<vals, dvals, grps, dgrps, called, dcalled>>
          [] o = "err" /\ k = "inv" ->
               /\ EndInvoke(Ret("invokeerr", f, n, {}))
               /\ UNCHANGED <<vals, dvals, grps, dgrps, called, dcalled, okn>>
          [] o = "err" /\ k # "inv" ->
               /\ fail' = Failure("fail", f, n, FALSE, f, {})
               /\ stack' = Pop
               /\ UNCHANGED <<vals, dvals, grps, dgrps, called, dcalled, okn, cur, ret>>
          [] o = "panic" /\ opt.recover /\ k = "inv" ->
               /\ EndInvoke(Ret("panic", f, n, {}))
               /\ UNCHANGED <<vals, dvals, grps, dgrps, called, dcalled, okn>>
          [] o = "panic" /\ opt.recover /\ k # "inv" ->
               /\ fail' = Failure("panic", f, n, FALSE, f, {})
               /\ stack' = Pop
               /\ UNCHANGED <<vals, dvals, grps, dgrps, called, dcalled, okn, cur, ret>>
          [] o = "panic" /\ ~opt.recover ->
               \* the panic reaches the caller of Invoke: every frame is abandoned
               /\ Finish(Ret("panicked", f, n, {}))
               /\ UNCHANGED <<vals, dvals, grps, dgrps, called, dcalled, okn>>
  /\ UNCHANGED <<ci, opt, created, reg, decs, verified, tried, ninv>>

Step == Descend \/ Unwind \/ Enter \/ NestBegin \/ NestReturn \/ \E o \in {"ok", "err", "panic"} : Exec(o)

ApiNext ==
  \/ \E s \in Scopes : CreateScope(s)
  \/ \E f \in Fns : Provide(f) \/ Decorate(f)
  \/ \E i \in Fns, s \in Scopes : BeginInvoke(i, s)

Next == ApiNext \/ Step

Spec     == Init /\ [][Next]_vars
FairSpec == Spec /\ WF_vars(Step)

-----------------------------------------------------------------------------
(* Declarative layer: what a consumer must receive *)

\* nearest scope on the path of s that has a decorator for k outside X; <<>> if none
NearestDecScope(k, s, X) == SelectSeq(Path(s), LAMBDA t : DecAt(t, k) \ X # {})
NearestProvScope(k, s)   == SelectSeq(Path(s), LAMBDA t : ProvsAt(t, k) # <<>>)

\* the function whose output a consumer in scope s receives for the single key k when the
\* decorators in X are being built; "" if nobody provides it
Source(k, s, X) ==
  IF NearestDecScope(k, s, X) # <<>> THEN TheDecAt(NearestDecScope(k, s, X)[1], k)
  ELSE IF NearestProvScope(k, s) # <<>> THEN ProvsAt(NearestProvScope(k, s)[1], k)[1]
  ELSE ""

\* constructors feeding group k visible from s
Feeders(k, s) == {f \in RegSet : Home(f) \in PathSet(s) /\ k \in KeysOf(f)}

\* the members constructor f contributes to group k (after its successful execution)
MembersOf(f, k) ==
  UNION {IF Rs(f)[i].m = "grp" THEN {Val(f, okn[f], i, 0)}
         ELSE {Val(f, okn[f], i, e) : e \in 1..Rs(f)[i].n} :
         i \in {x \in DOMAIN Rs(f) : Rs(f)[x].m \in {"grp", "flat"} /\ k \in ResKeys(f, x)}}

\* the group decorator whose slice a consumer in s receives, if any
GroupSource(k, s, X) ==
  IF NearestDecScope(k, s, X) # <<>> THEN TheDecAt(NearestDecScope(k, s, X)[1], k) ELSE ""

-----------------------------------------------------------------------------
(* Properties, as state invariants over the machine.  Those that speak about an       *)
(* execution look at the exec event that was just logged: every exec event is the     *)
(* last element of log in the state right after its Exec step.                        *)

LastExec == IF log # <<>> /\ log[Len(log)].t = "exec" THEN log[Len(log)]
            ELSE IF Len(log) > 1 /\ log[Len(log)].t = "cb" /\ log[Len(log) - 1].t = "exec"
                 THEN log[Len(log) - 1] ELSE [t |-> "none"]
HaveExec == cur.op = "invoke" /\ LastExec.t = "exec"

\* C01 / C08 / C09 / C12: every single-valued argument is the output of Source, for exactly
\* the requested key, from Source's one successful execution; or Zero for an optional
\* parameter nobody can satisfy
ArgOK(ev, j) ==
  LET p == Ps(ev.f)[j]
      a == ev.args[j]
      X == ev.xs \cup (IF Kind(ev.f) = "dec" THEN {ev.f} ELSE {})
      src == Source(p.k, ev.view, X)
  IN  p.m \in {"req", "opt"} =>
        /\ Len(a) = 1
        /\ IF a[1] = Zero THEN p.m = "opt"
           ELSE /\ a[1].f = src
                /\ a[1].n = okn[src]
                /\ p.k \in ResKeys(src, a[1].i)
                /\ Rs(src)[a[1].i].m = "one"

C01_Provenance == HaveExec => \A j \in DOMAIN Ps(LastExec.f) : ArgOK(LastExec, j)

\* C08: the producer of every argument is visible from the consumer's view scope
C08_Visible ==
  HaveExec => \A j \in DOMAIN Ps(LastExec.f) : \A x \in DOMAIN LastExec.args[j] :
     LET a == LastExec.args[j][x] IN
       a # Zero => (IF Kind(a.f) = "dec" THEN Fn(a.f).scope ELSE Home(a.f)) \in PathSet(LastExec.view)

\* C08: a constructor is always built as seen from the scope it was given to
C08_OwnView == \A j \in DOMAIN stack :
  IF Kind(stack[j].f) = "inv" THEN (j = 1 => stack[j].view = cur.s)
  ELSE stack[j].view = View(stack[j].f)

\* C08: results are cached in the home scope of their constructor, decorated values in the
\* scope of their decorator
C08_HomeCommit ==
  /\ \A e \in vals  : e.s = Home(e.v.f)
  /\ \A e \in dvals : e.s = Fn(e.v.f).scope
  /\ \A j \in DOMAIN grps : grps[j].s = Home(grps[j].v.f)

\* C02: never two frames for one function; a function that succeeded never runs again
C02_NoReentry == \A i, j \in DOMAIN stack : i # j => stack[i].f # stack[j].f
C02_CalledIffOk ==
  /\ \A f \in Ctors  : f \in called  <=> okn[f] > 0
  /\ \A d \in Decors : d \in dcalled <=> okn[d] > 0
\* no execution after the successful one (action property)
C02_NoExecAfterSuccess_A ==
  \A f \in Fns : (Kind(f) # "inv" /\ okn[f] > 0) => execs'[f] = execs[f]
C02_NoExecAfterSuccess == [][C02_NoExecAfterSuccess_A]_vars
\* every cached value stems from the unique successful execution of its producer
C02_SameInstance ==
  /\ \A e \in vals \cup dvals : e.v.n = okn[e.v.f] /\ e.v.n > 0
  /\ \A j \in DOMAIN grps : grps[j].v.n = okn[grps[j].v.f] /\ grps[j].v.n > 0
  /\ \A e \in dgrps : \A x \in DOMAIN e.v : e.v[x].n = okn[e.v[x].f]

\* C07: no argument ever carries the number of a failed execution
C07_NoPartial ==
  HaveExec => \A j \in DOMAIN LastExec.args : \A x \in DOMAIN LastExec.args[j] :
     LET a == LastExec.args[j][x] IN a # Zero => a.n = okn[a.f] /\ a.n > 0
\* a failed execution leaves the caches and markers alone (action property)
C07_FailureLeavesNoTrace_A ==
  (\E f \in Fns : execs'[f] = execs[f] + 1 /\ okn'[f] = okn[f] /\ Kind(f) # "inv")
       => UNCHANGED <<vals, dvals, grps, dgrps, called, dcalled>>
C07_FailureLeavesNoTrace == [][C07_FailureLeavesNoTrace_A]_vars

\* C10: a hard group parameter outside any group decorator holds exactly the members of
\* every visible feeder, each feeder having run exactly once
GroupArgOK(ev, j) ==
  LET p == Ps(ev.f)[j]
      a == ev.args[j]
      X == ev.xs \cup (IF Kind(ev.f) = "dec" THEN {ev.f} ELSE {})
      gs == GroupSource(p.k, ev.view, X)
      want == UNION {MembersOf(f, p.k) : f \in Feeders(p.k, ev.view)}
  IN  /\ (p.m = "grp" /\ gs = "") =>
           /\ ToSet(a) = want /\ Len(a) = Cardinality(want)
           /\ \A f \in Feeders(p.k, ev.view) : f \in called
      \* C11: a soft group only holds members of feeders that already ran
      /\ (p.m = "soft" /\ gs = "") =>
           /\ ToSet(a) \subseteq UNION {MembersOf(f, p.k) : f \in Feeders(p.k, ev.view) \cap called}
           /\ Len(a) = Cardinality(ToSet(a))
           /\ UNION {MembersOf(f, p.k) : f \in Feeders(p.k, ev.view) \cap ev.pre} \subseteq ToSet(a)
      \* C12: below a group decorator the consumer receives exactly the decorator's slice
      /\ (p.m \in {"grp", "soft"} /\ gs # "") =>
           /\ gs \in dcalled
           /\ \A x \in DOMAIN a : a[x].f = gs /\ a[x].n = okn[gs] /\ p.k \in ResKeys(gs, a[x].i)

C10_Groups == HaveExec => \A j \in DOMAIN Ps(LastExec.f) : GroupArgOK(LastExec, j)

\* C11: resolving a soft group never pushes a constructor frame (action property)
C11_NoTrigger_A ==
  (Building /\ Len(stack') = Len(stack) + 1 /\ Kind(stack'[Len(stack')].f) = "ctor")
        => Ps(Top.f)[stack'[Len(stack)].cj].m # "soft"
C11_NoTrigger == [][C11_NoTrigger_A]_vars

\* C12: one decorator per key and scope
C12_OnePerScopeKey == \A d1, d2 \in decs :
   (d1 # d2 /\ Fn(d1).scope = Fn(d2).scope) => KeysOf(d1) \cap KeysOf(d2) = {}

\* C09: one provider per single key and scope
C09_OneProvider == \A f, g \in RegSet :
   (f # g /\ Home(f) = Home(g)) => SingleKeysOf(f) \cap SingleKeysOf(g) = {}

\* C05: the stack never holds more frames than there are functions
C05_StackBound == Len(stack) <= Cardinality(Fns)
\* C05: without deferred verification no view of an existing scope is ever cyclic
C05_EagerAcyclic == ~opt.defer => \A s \in created : ~CyclicInView(s, RegSet)
\* C05: a graph acyclic under the most permissive reading is never reported cyclic
C05_NoSpuriousCycle == (ret.v = "cycle" /\ ~cur.active) => CyclicPermissive(RegSet \cup (IF cur.op = "provide" THEN {cur.f} ELSE {}), decs)
\* C05: every call terminates
C05_Terminates == cur.active ~> ~cur.active

\* C03: during an Invoke only functions in the closure of the invoked function run.
RECURSIVE ClosureFrom(_, _)
DepsOf(f, s) ==
  \* functions that resolving the parameters of f from view s may enter directly
  LET X == {} IN
  UNION {LET p == Ps(f)[j] IN
         IF p.m \in {"req", "opt"} THEN
            {d \in decs : Fn(d).scope \in PathSet(s) /\ p.k \in KeysOf(d)}
            \cup (IF NearestProvScope(p.k, s) # <<>>
                  THEN {ProvsAt(NearestProvScope(p.k, s)[1], p.k)[1]} ELSE {})
         ELSE {d \in decs : Fn(d).scope \in PathSet(s) /\ p.k \in KeysOf(d)}
              \cup (IF p.m = "grp" THEN Feeders(p.k, s) ELSE {})
        : j \in DOMAIN Ps(f)}
ViewOf(f, s) == IF Kind(f) = "inv" THEN s ELSE View(f)
ClosureFrom(W, s) ==
  LET N == W \cup UNION {DepsOf(f, ViewOf(f, s)) : f \in W}
  IN  IF N = W THEN W ELSE ClosureFrom(N, s)
Closure(i, s) == ClosureFrom({i}, s)

\* (the Invoke meant is the innermost one in progress when the function ran)
C03_OnlyClosure == HaveExec => LastExec.f \in Closure(LastExec.inv, LastExec.is)
\* C03: when a function runs, everything it received was produced earlier (deps first)
C03_DepsFirst == HaveExec => \A j \in DOMAIN LastExec.args : \A x \in DOMAIN LastExec.args[j] :
     LET a == LastExec.args[j][x] IN a # Zero => okn[a.f] = a.n /\ a.f # LastExec.f
\* C03: registrations execute nothing (action property)
C03_RegistrationsSilent_A ==
  (~cur.active /\ ~cur'.active) => execs' = execs
C03_RegistrationsSilent == [][C03_RegistrationsSilent_A]_vars

\* C04: without faults, an Invoke that passed its own shallow check fails with "missing"
\* only if some constructor in its closure lacks a required dependency
C04_MissingIsReal ==
  (~cur.active /\ cur.op = "invoke" /\ ret.v = "missing") =>
     \E f \in Closure(cur.f, cur.s) : Shallow(f, ViewOf(f, cur.s)) # {}
\* an optional tag never hides a user error: a failure of class fail / panic always ends the call
C04_OptionalNeverHidesError == (fail # NoFail /\ fail.c \in {"fail", "panic"}) => ~fail.md

\* C13: the root cause of a constructor failure is an execution that was logged as failed
C13_RootIsLogged ==
  (~cur.active /\ cur.op = "invoke" /\ ret.v \in {"fail", "panic", "invokeerr", "panicked"} /\ ~opt.dry) =>
     \E x \in DOMAIN log : log[x].t = "exec" /\ log[x].f = ret.f /\ log[x].n = ret.n /\ log[x].o # "ok"
C13_InvokeErrIsOwn == (~cur.active /\ ret.v = "invokeerr") => ret.f = cur.f

\* C17: a dry container logs no execution
C17_DrySilent == opt.dry => \A x \in DOMAIN log : log[x].t # "exec"

\* C20: callbacks are in bijection with the executions of callback-carrying functions
C20_OneToOne ==
  LET ex == SelectSeq(log, LAMBDA e : e.t = "exec" /\ Fn(e.f).cb /\ Kind(e.f) # "inv")
      cb == SelectSeq(log, LAMBDA e : e.t = "cb")
  IN  ~opt.dry => /\ Len(cb) <= Len(ex) /\ Len(ex) <= Len(cb) + 1
                  /\ \A x \in DOMAIN cb : cb[x].f = ex[x].f /\ cb[x].n = ex[x].n
                        /\ cb[x].rt = Fn(cb[x].f).dur
                        /\ (ex[x].o = "ok" <=> cb[x].e = "nil")

\* C06: a rejected registration changes nothing (action property)
C06_NoTrace_A ==
  (~cur'.active /\ cur'.op \in {"provide", "decorate"} /\ ret'.v # "ok" /\ ~cur.active)
       => UNCHANGED <<reg, decs, vals, dvals, grps, dgrps, called, dcalled, execs, okn, created>>
C06_NoTrace == [][C06_NoTrace_A]_vars

\* consistency of caches with markers
CacheConsistent ==
  /\ \A f \in called : \A k \in SingleKeysOf(f) : HasVal(Home(f), k)
  /\ \A e \in vals : e.v.f \in called
  /\ \A d \in dcalled : \A k \in SingleKeysOf(d) : HasDVal(Fn(d).scope, k)
  /\ \A e \in dvals : e.v.f \in dcalled

=============================================================================

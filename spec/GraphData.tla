----------------------------- MODULE GraphData -----------------------------
(* sample data; the harness writes its own GraphData.tla per run *)
Records == <<
  [adj |-> << <<1>>, <<0>> >>, ok |-> FALSE, path |-> <<0, 1, 0>>],
  [adj |-> << <<1>>, <<>> >>, ok |-> TRUE, path |-> <<>>]
>>
=============================================================================

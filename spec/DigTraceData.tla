---------------------------- MODULE DigTraceData ----------------------------
(* Data module: a recorded trace.  This file is a small hand-written sample (it matches   *)
(* the sample DigCats.tla); every run of the harness writes its own DigTraceData.tla and  *)
(* DigCats.tla into its scratch directory.                                                *)
Trace == <<
  [ev |-> "new", ci |-> 1, opt |-> [defer |-> FALSE, recover |-> TRUE, dry |-> FALSE],
   op |-> "", f |-> "", s |-> "", plan |-> <<>>, v |-> "", rf |-> "", rn |-> 0, mk |-> <<>>, log |-> <<>>, na |-> FALSE, hs |-> FALSE, sc |-> <<>>],
  [ev |-> "op", ci |-> 0, opt |-> [defer |-> FALSE, recover |-> TRUE, dry |-> FALSE],
   op |-> "provide", f |-> "c1", s |-> "r", plan |-> <<>>, v |-> "ok", rf |-> "", rn |-> 0, mk |-> <<>>, log |-> <<>>, na |-> FALSE, hs |-> FALSE, sc |-> <<>>],
  [ev |-> "op", ci |-> 0, opt |-> [defer |-> FALSE, recover |-> TRUE, dry |-> FALSE],
   op |-> "invoke", f |-> "i1", s |-> "r", plan |-> <<>>, v |-> "ok", rf |-> "", rn |-> 0, mk |-> <<>>,
   log |-> <<[t |-> "exec", f |-> "c1", n |-> 1, o |-> "ok", args |-> <<>>, e |-> "", rt |-> 0],
             [t |-> "exec", f |-> "i1", n |-> 1, o |-> "ok",
              args |-> << <<[f |-> "", n |-> 0, i |-> 0, e |-> 0]>>, <<>>, <<[f |-> "c1", n |-> 1, i |-> 1, e |-> 0]>> >>,
              e |-> "", rt |-> 0]>>, na |-> FALSE, hs |-> FALSE, sc |-> <<>>]
>>
=============================================================================

------------------------------ MODULE DigPair ------------------------------
(***************************************************************************)
(* Two containers over the same catalog, fed the same API operations, that *)
(* differ in one option only:                                              *)
(*   Mode = "dry"   : B is a DryRun container (C17: it executes nothing and *)
(*                    gives the same verdict for every operation);         *)
(*   Mode = "defer" : B flips DeferAcyclicVerification (C16: as long as     *)
(*                    neither has reported a cycle, verdicts, executions,  *)
(*                    wiring and the whole container state coincide).      *)
(* Both are instances of Dig; an API operation is taken by both at once,   *)
(* then A runs its resolver steps to the end of the call, then B.  The     *)
(* relational properties are invariants of the product, evaluated when     *)
(* both are idle.  This is a theorem about the specification; the code is  *)
(* bound to each instance separately by replay / trace validation and to   *)
(* the pair by the pair stages of the harness (real versus real).          *)
(***************************************************************************)
EXTENDS Integers, Sequences, FiniteSets, TLC, SequencesExt, FiniteSetsExt, DigCats

CONSTANTS MaxInv, MaxFaults, FaultKinds, FreeOrder,
          Mode        \* "dry" | "defer"

VARIABLES a_ci, a_opt, a_created, a_reg, a_decs, a_vals, a_dvals, a_grps, a_dgrps, a_called, a_dcalled, a_verified, a_execs, a_okn, a_stack, a_fail, a_cur, a_tried, a_ninv, a_nfault, a_log, a_ret,
          b_ci, b_opt, b_created, b_reg, b_decs, b_vals, b_dvals, b_grps, b_dgrps, b_called, b_dcalled, b_verified, b_execs, b_okn, b_stack, b_fail, b_cur, b_tried, b_ninv, b_nfault, b_log, b_ret,
          saw         \* some operation so far was answered with a cycle verdict by A or by B

avars == <<a_ci, a_opt, a_created, a_reg, a_decs, a_vals, a_dvals, a_grps, a_dgrps, a_called, a_dcalled, a_verified, a_execs, a_okn, a_stack, a_fail, a_cur, a_tried, a_ninv, a_nfault, a_log, a_ret>>
bvars == <<b_ci, b_opt, b_created, b_reg, b_decs, b_vals, b_dvals, b_grps, b_dgrps, b_called, b_dcalled, b_verified, b_execs, b_okn, b_stack, b_fail, b_cur, b_tried, b_ninv, b_nfault, b_log, b_ret>>

A == INSTANCE Dig WITH ci <- a_ci, opt <- a_opt, created <- a_created, reg <- a_reg, decs <- a_decs, vals <- a_vals, dvals <- a_dvals, grps <- a_grps, dgrps <- a_dgrps, called <- a_called, dcalled <- a_dcalled, verified <- a_verified, execs <- a_execs, okn <- a_okn, stack <- a_stack, fail <- a_fail, cur <- a_cur, tried <- a_tried, ninv <- a_ninv, nfault <- a_nfault, log <- a_log, ret <- a_ret
B == INSTANCE Dig WITH ci <- b_ci, opt <- b_opt, created <- b_created, reg <- b_reg, decs <- b_decs, vals <- b_vals, dvals <- b_dvals, grps <- b_grps, dgrps <- b_dgrps, called <- b_called, dcalled <- b_dcalled, verified <- b_verified, execs <- b_execs, okn <- b_okn, stack <- b_stack, fail <- b_fail, cur <- b_cur, tried <- b_tried, ninv <- b_ninv, nfault <- b_nfault, log <- b_log, ret <- b_ret

Twin(o) == IF Mode = "dry" THEN [o EXCEPT !.dry = TRUE] ELSE [o EXCEPT !.defer = ~o.defer]

PairInit ==
  /\ \E c \in DOMAIN Cats : \E o \in ToSet(Cats[c].opts) :
        /\ ~o.dry
        /\ A!InitWith(c, o)
        /\ B!InitWith(c, Twin(o))
  /\ saw = FALSE

BothIdle == A!Idle /\ B!Idle

\* the verdict of the operation that just completed in one or both instances
Cyc == (~a_cur'.active /\ a_ret'.v = "cycle") \/ (~b_cur'.active /\ b_ret'.v = "cycle")

Api ==
  /\ BothIdle
  /\ \/ \E s \in A!Scopes : A!CreateScope(s) /\ B!CreateScope(s)
     \/ \E f \in A!Fns : A!Provide(f) /\ B!Provide(f)
     \/ \E d \in A!Fns : A!Decorate(d) /\ B!Decorate(d)
     \/ \E i \in A!Fns, s \in A!Scopes : A!BeginInvoke(i, s) /\ B!BeginInvoke(i, s)

StepA == a_cur.active /\ A!Step /\ UNCHANGED bvars
StepB == ~a_cur.active /\ b_cur.active /\ B!Step /\ UNCHANGED avars

PairNext == (Api \/ StepA \/ StepB) /\ saw' = (saw \/ Cyc)

PairSpec == PairInit /\ [][PairNext]_<<avars, bvars, saw>>

-----------------------------------------------------------------------------
\* the two instances are always offered the same operations
SameHistory ==
  BothIdle => /\ a_tried = b_tried /\ a_created = b_created /\ a_ninv = b_ninv
              /\ a_cur.op = b_cur.op /\ a_cur.f = b_cur.f /\ a_cur.s = b_cur.s

NormV(v) == IF v \in {"invalid", "dup"} THEN "reject" ELSE v

\* (user functions that call Invoke again do so only when their body runs, which it never does in
\* a dry container: the comparison is about catalogs without such functions)
NoNests == \A f \in A!Fns : A!Nest(f) = <<>>

\* C17: a DryRun container executes nothing and answers every operation like the normal one
C17_DryPair ==
  (Mode = "dry" /\ BothIdle /\ NoNests) =>
     /\ NormV(a_ret.v) = NormV(b_ret.v)
     /\ a_ret.mk = b_ret.mk
     /\ a_reg = b_reg /\ a_decs = b_decs
     /\ a_called = b_called /\ a_dcalled = b_dcalled
     /\ \A x \in DOMAIN b_log : b_log[x].t # "exec"
     /\ \A f \in A!Fns : b_execs[f] = a_execs[f]

\* C16: until a cycle is reported, the timing of the acyclicity verification changes nothing
C16_DeferPair ==
  (Mode = "defer" /\ BothIdle /\ ~saw) =>
     /\ a_ret = b_ret /\ a_log = b_log
     /\ a_reg = b_reg /\ a_decs = b_decs
     /\ a_vals = b_vals /\ a_dvals = b_dvals /\ a_grps = b_grps /\ a_dgrps = b_dgrps
     /\ a_called = b_called /\ a_dcalled = b_dcalled /\ a_execs = b_execs /\ a_okn = b_okn
\* and a cycle verdict is never given to one operation by the eager container alone at Invoke
\* time: what the eager one rejects at Provide the deferred one rejects at the next Invoke of a
\* scope that sees the cycle - stated as: after a cycle was seen nothing is claimed (saw).

PairView == <<a_ci, a_opt, a_created, A!RegSet, a_decs, a_vals, a_dvals, ToSet(a_grps), a_dgrps, a_called, a_dcalled,
              a_verified, a_execs, a_okn, a_stack, a_fail, a_cur, a_tried, a_ninv,
              b_opt, B!RegSet, b_decs, b_vals, b_dvals, ToSet(b_grps), b_dgrps, b_called, b_dcalled,
              b_verified, b_execs, b_okn, b_stack, b_fail, b_cur, b_ret.v, a_ret.v, saw>>
=============================================================================

------------------------------- MODULE Graph -------------------------------
(***************************************************************************)
(* The cycle search of internal/graph (IsAcyclic) as a small-step          *)
(* algorithm with an explicit stack, next to the declarative definitions   *)
(* it must agree with: HasCycle (a node reaches itself through at least    *)
(* one edge) and IsClosedPath (the reported cycle is a real closed path).  *)
(*                                                                         *)
(* Two uses:                                                               *)
(*  - MCGraph: TLC explores the algorithm on every digraph with N nodes    *)
(*    (self-loops included; successors visited in ascending order) and     *)
(*    checks Correct and Termination;                                      *)
(*  - GraphRecords: results recorded from the real implementation through  *)
(*    the hook VerifIsAcyclic (all digraphs up to a size bound, random     *)
(*    larger ones with arbitrary edge order and duplicates) are validated  *)
(*    against the declarative definitions only, so that a different but    *)
(*    correct search order is not an alarm.                                *)
(***************************************************************************)
EXTENDS Integers, Sequences, FiniteSets, TLC

CONSTANT N
Nodes == 0..(N - 1)

-----------------------------------------------------------------------------
(* Declarative layer, over adjacency given as a function node -> sequence of nodes *)

Succs(adj, u) == {adj[u][j] : j \in DOMAIN adj[u]}

RECURSIVE ReachSet(_, _, _)
ReachSet(adj, X, fuel) ==
  LET Y == X \cup UNION {Succs(adj, x) : x \in X}
  IN  IF Y = X \/ fuel = 0 THEN X ELSE ReachSet(adj, Y, fuel - 1)

HasCycle(adj) ==
  \E v \in DOMAIN adj : v \in ReachSet(adj, Succs(adj, v), Cardinality(DOMAIN adj))

IsClosedPath(adj, p) ==
  /\ Len(p) >= 2
  /\ p[1] = p[Len(p)]
  /\ \A j \in 1..(Len(p) - 1) : p[j] \in DOMAIN adj /\ p[j + 1] \in Succs(adj, p[j])

-----------------------------------------------------------------------------
(* The algorithm *)

VARIABLES adj,      \* node -> sequence of successors
          visited, onstack,
          root,     \* next root to start from
          stk,      \* sequence of frames [u, j]: node and index of its next edge
          result,   \* "" while running, then "acyclic" / "cyclic"
          cycle     \* the reported path

gvars == <<adj, visited, onstack, root, stk, result, cycle>>

\* ascending successor lists for every subset
SeqOfSet(S) == LET RECURSIVE F(_) F(T) == IF T = {} THEN <<>> ELSE
                     LET m == CHOOSE x \in T : \A y \in T : x <= y IN <<m>> \o F(T \ {m})
               IN F(S)

GInit ==
  /\ adj \in {[u \in Nodes |-> SeqOfSet(f[u])] : f \in [Nodes -> SUBSET Nodes]}
  /\ visited = [u \in Nodes |-> FALSE]
  /\ onstack = [u \in Nodes |-> FALSE]
  /\ root = 0 /\ stk = <<>> /\ result = "" /\ cycle = <<>>

PathOf == [j \in 1..Len(stk) |-> stk[j].u]

\* for i := 0; i < g.Order(); i++ { info.Reset(); isAcyclic(g, i, info, nil) }
StartRoot ==
  /\ result = "" /\ stk = <<>> /\ root < N
  /\ IF visited[root]
     THEN /\ onstack' = [u \in Nodes |-> FALSE]
          /\ UNCHANGED <<visited, stk>>
     ELSE /\ visited' = [visited EXCEPT ![root] = TRUE]
          /\ onstack' = [[u \in Nodes |-> FALSE] EXCEPT ![root] = TRUE]
          /\ stk' = <<[u |-> root, j |-> 1]>>
  /\ root' = root + 1
  /\ UNCHANGED <<adj, result, cycle>>

Finish ==
  /\ result = "" /\ stk = <<>> /\ root = N
  /\ result' = "acyclic"
  /\ UNCHANGED <<adj, visited, onstack, root, stk, cycle>>

TopF == stk[Len(stk)]

\* examine the next edge of the top frame
Edge ==
  /\ result = "" /\ stk # <<>> /\ TopF.j <= Len(adj[TopF.u])
  /\ LET v == adj[TopF.u][TopF.j] IN
     IF ~visited[v] THEN
        /\ visited' = [visited EXCEPT ![v] = TRUE]
        /\ onstack' = [onstack EXCEPT ![v] = TRUE]
        /\ stk' = Append([stk EXCEPT ![Len(stk)].j = @ + 1], [u |-> v, j |-> 1])
        /\ UNCHANGED <<result, cycle>>
     ELSE IF onstack[v] THEN
        /\ result' = "cyclic"
        /\ LET p == PathOf
               k == CHOOSE x \in DOMAIN p : p[x] = v /\ \A y \in DOMAIN p : p[y] = v => y <= x
           IN  cycle' = SubSeq(p, k, Len(p)) \o <<v>>
        /\ UNCHANGED <<visited, onstack, stk>>
     ELSE
        /\ stk' = [stk EXCEPT ![Len(stk)].j = @ + 1]
        /\ UNCHANGED <<visited, onstack, result, cycle>>
  /\ UNCHANGED <<adj, root>>

\* all edges of the top frame examined
Return ==
  /\ result = "" /\ stk # <<>> /\ TopF.j > Len(adj[TopF.u])
  /\ onstack' = [onstack EXCEPT ![TopF.u] = FALSE]
  /\ stk' = SubSeq(stk, 1, Len(stk) - 1)
  /\ UNCHANGED <<adj, visited, root, result, cycle>>

GNext == StartRoot \/ Finish \/ Edge \/ Return
GSpec == GInit /\ [][GNext]_gvars /\ WF_gvars(GNext)

Correct ==
  /\ result = "acyclic" => ~HasCycle(adj)
  /\ result = "cyclic"  => HasCycle(adj) /\ IsClosedPath(adj, cycle)
\* nodes on the stack are exactly the ones marked on-stack, and form a path
StackIsPath ==
  /\ \A j \in 1..(Len(stk) - 1) : stk[j + 1].u \in Succs(adj, stk[j].u)
  /\ result = "" => \A u \in Nodes : onstack[u] <=> \E j \in DOMAIN stk : stk[j].u = u
\* a node that was left (visited, not on stack) reaches no cycle
LeftIsClean ==
  result = "" => \A u \in Nodes : (visited[u] /\ ~onstack[u]) =>
       \A v \in ReachSet(adj, {u}, N) : v \notin ReachSet(adj, Succs(adj, v), N)
Termination == <>(result # "")
=============================================================================

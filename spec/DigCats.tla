------------------------------ MODULE DigCats ------------------------------
(* Data module: the sequence of catalogs the specification ranges over.  This file is a   *)
(* small hand-written sample so that Dig.tla can be parsed and model-checked on its own;  *)
(* every run of the harness writes its own DigCats.tla into its scratch directory.        *)
Cats == <<
  [parent |-> [r |-> "", a |-> "r"], order |-> <<>>,
   opts |-> <<[defer |-> FALSE, recover |-> TRUE, dry |-> FALSE]>>,
   fns |-> [
     c1 |-> [kind |-> "ctor", scope |-> "r", exp |-> FALSE, cb |-> FALSE, dur |-> 1, inv |-> "", nilres |-> FALSE, nest |-> <<>>,
             ps |-> <<>>, rs |-> <<[ks |-> <<"T0">>, m |-> "one", n |-> 0]>>],
     c2 |-> [kind |-> "ctor", scope |-> "a", exp |-> FALSE, cb |-> TRUE, dur |-> 2, inv |-> "", nilres |-> FALSE, nest |-> <<>>,
             ps |-> <<[k |-> "T0", m |-> "req", op |-> <<>>]>>,
             rs |-> <<[ks |-> <<"T1">>, m |-> "one", n |-> 0], [ks |-> <<"T2@g">>, m |-> "grp", n |-> 0]>>],
     d1 |-> [kind |-> "dec", scope |-> "a", exp |-> FALSE, cb |-> FALSE, dur |-> 4, inv |-> "", nilres |-> FALSE, nest |-> <<>>,
             ps |-> <<[k |-> "T0", m |-> "req", op |-> <<>>]>>,
             rs |-> <<[ks |-> <<"T0">>, m |-> "one", n |-> 0]>>],
     i1 |-> [kind |-> "inv", scope |-> "", exp |-> FALSE, cb |-> FALSE, dur |-> 0, inv |-> "", nilres |-> FALSE, nest |-> <<>>,
             ps |-> <<[k |-> "T1", m |-> "opt", op |-> <<1>>], [k |-> "T2@g", m |-> "grp", op |-> <<1>>],
                      [k |-> "T0", m |-> "req", op |-> <<>>]>>,
             rs |-> <<>>]]]
>>
=============================================================================

-------------------------------- MODULE Sig --------------------------------
(***************************************************************************)
(* dig's front end: which Go values Provide / Decorate / Invoke accept,    *)
(* and how an accepted signature flattens into the parameter and result    *)
(* lists on which Dig.tla is defined (and which Fill*Info reports).        *)
(*                                                                         *)
(* The front end is a pure function with rich case analysis (reflection    *)
(* over signatures, struct tags and options).  It is transcribed here as a *)
(* decision function over a bounded grammar of signature descriptors; TLC  *)
(* enumerates the grammar (one initial state per descriptor), checks the   *)
(* internal theorems below, and prints one JSON line per descriptor with   *)
(* the verdicts and flat forms; the harness builds the corresponding Go    *)
(* value with reflect and runs the real Provide / Decorate / Invoke on it  *)
(* (one implementation test per enumerated case).                          *)
(***************************************************************************)
EXTENDS Integers, Sequences, FiniteSets, TLC, Json

(* Type atoms.  T0,T1,T7: pointer-to-struct types; I0: interface implemented by all T;    *)
(* IX: interface implemented by none; sT0, sI0: slices; NS: named slice type with         *)
(* methods (implements I0); err: error; int; the remaining atoms are fixed struct shapes: *)
(*   IN1  = struct{dig.In;  A *T1}         pIN1  = *IN1                                   *)
(*   OUT1 = struct{dig.Out; A *T1}         pOUT1 = *OUT1                                  *)
(*   EPI  = struct{*dig.In; A *T1}         EPO   = struct{*dig.Out; A *T1}                *)
(*   INOUT = struct{dig.In; dig.Out; A *T1}      ssT0 = [][]*T0                            *)
(*   InA = struct{dig.In; A *T1}   InB = struct{dig.In; B *T0 `optional:"true"`}          *)
(*   IN2 = struct{InA; InB}  INE = struct{InA}   (parameter objects only by embedding)    *)
(*   OutA = struct{dig.Out; A *T1} OutB = struct{dig.Out; B *T0}  OUT2 = struct{OutA;OutB}*)
(*   erS = a struct type with a value-receiver Error method (an error that is never nil)  *)
(*   aT0 = [2]*T0   aV0 = [2]V0   aBig = [1<<62]struct{} (a legal, zero-size type)           *)
(*   aPB = [1<<20]*[1<<45]byte   fnT = func() *T0   mpT = map[string]*T0   chT = chan *T0    *)
(*   (ordinary types as far as dig is concerned: a key like any other; aBig and aPB only as  *)
(*   parameters: String() prints cached values with fmt, 2^62 elements are the user's cost) *)
Slices   == {"sT0", "sI0", "NS", "ssT0"}
ElemOf(t) == CASE t = "sT0" -> "T0" [] t = "sI0" -> "I0" [] t = "NS" -> "T0" [] t = "ssT0" -> "sT0" [] OTHER -> t
ErrorLike(t) == t \in {"err", "erS"}
Implements(t, i) == (i = "I0" /\ t \in {"T0", "T1", "T7", "NS"})

\* strconv.ParseBool on the tag alphabet
BoolOK(s)   == s \in {"", "true", "false", "1", "0", "t", "f", "True", "TRUE", "T", "False", "FALSE", "F"}
BoolTrue(s) == s \in {"true", "1", "t", "True", "TRUE", "T"}

\* parseGroupString: <<ok, name, flatten, soft>>
GroupParse(g) ==
  CASE g = "g"              -> [ok |-> TRUE,  name |-> "g", flatten |-> FALSE, soft |-> FALSE]
    [] g = "g "             -> [ok |-> TRUE,  name |-> "g ", flatten |-> FALSE, soft |-> FALSE]   \* names are exact
    [] g = "h"              -> [ok |-> TRUE,  name |-> "h", flatten |-> FALSE, soft |-> FALSE]
    [] g = "g,flatten"      -> [ok |-> TRUE,  name |-> "g", flatten |-> TRUE,  soft |-> FALSE]
    [] g = "g,soft"         -> [ok |-> TRUE,  name |-> "g", flatten |-> FALSE, soft |-> TRUE]
    [] g = "g,flatten,soft" -> [ok |-> TRUE,  name |-> "g", flatten |-> TRUE,  soft |-> TRUE]
    [] g = "g,bogus"        -> [ok |-> FALSE, name |-> "g", flatten |-> FALSE, soft |-> FALSE]
    [] g = ",flatten"       -> [ok |-> FALSE, name |-> "",  flatten |-> TRUE,  soft |-> FALSE]
    [] g = ",soft"          -> [ok |-> FALSE, name |-> "",  flatten |-> FALSE, soft |-> TRUE]
    [] OTHER                -> [ok |-> FALSE, name |-> "",  flatten |-> FALSE, soft |-> FALSE]

Bad == [ok |-> FALSE, flat |-> <<>>]
Good(fl) == [ok |-> TRUE, flat |-> fl]

PEntry(t, name, grp, opt, soft) == [ty |-> t, name |-> name, grp |-> grp, opt |-> opt, soft |-> soft]
REntry(t, name, grp) == [ty |-> t, name |-> name, grp |-> grp, fl |-> FALSE]
FEntry(t, grp) == [ty |-> t, name |-> "", grp |-> grp, fl |-> TRUE]   \* a flattened group result

-----------------------------------------------------------------------------
(* Parameters: newParam / newParamObject / newParamObjectField / newParamGroupedSlice *)

\* a type used as a parameter outside any tag context
InObjs == {"IN1", "IN2", "INE"}
ParamOfType(t) ==
  CASE t \in {"OUT1", "pOUT1", "EPO", "INOUT", "OUT2"} -> Bad \* cannot depend on result objects
    [] t \in {"IN1", "INE"} -> Good(<<PEntry("T1", "", "", FALSE, FALSE)>>)
    [] t = "IN2"  -> Good(<<PEntry("T1", "", "", FALSE, FALSE), PEntry("T0", "", "", TRUE, FALSE)>>)
    [] t = "EPI"  -> Bad                                      \* embeds *dig.In
    [] t = "pIN1" -> Bad                                      \* pointer to a parameter object
    [] OTHER      -> Good(<<PEntry(t, "", "", FALSE, FALSE)>>)

\* one field [x, ty, name, opt, grp] of a dig.In struct
ParamField(f) ==
  IF ~f.x THEN Bad
  ELSE IF f.grp # "" THEN
     LET g == GroupParse(f.grp) IN
     IF ~g.ok THEN Bad
     ELSE IF f.ty \notin Slices THEN Bad
     ELSE IF g.flatten THEN Bad
     ELSE IF f.name # "" THEN Bad
     ELSE IF BoolOK(f.opt) /\ BoolTrue(f.opt) THEN Bad
     ELSE Good(<<PEntry(f.ty, "", g.name, FALSE, g.soft)>>)
  ELSE
     LET p == ParamOfType(f.ty) IN
     IF ~p.ok THEN Bad
     ELSE IF f.ty \in InObjs THEN p             \* nested object: name / optional tags are not read
     ELSE IF ~BoolOK(f.opt) THEN Bad
     ELSE Good(<<PEntry(f.ty, f.name, "", BoolTrue(f.opt), FALSE)>>)

RECURSIVE ConcatOK(_, _)
\* all-or-nothing concatenation of field results (first failure wins)
ConcatOK(rs, j) ==
  IF j > Len(rs) THEN Good(<<>>)
  ELSE IF ~rs[j].ok THEN Bad
  ELSE LET rest == ConcatOK(rs, j + 1) IN
       IF ~rest.ok THEN Bad ELSE Good(rs[j].flat \o rest.flat)

\* a parameter item [k, ty, fs, iu]
ParamItem(it) ==
  CASE it.k = "plain" -> ParamOfType(it.ty)
    [] it.k \in {"in", "inl"} ->      \* "inl": the dig.In embed is the LAST field of the struct
         IF ~BoolOK(it.iu) THEN Bad
         ELSE LET keep == SelectSeq(it.fs, LAMBDA f : f.x \/ ~BoolTrue(it.iu))
              IN  ConcatOK([j \in 1..Len(keep) |-> ParamField(keep[j])], 1)
    [] OTHER -> Bad    \* pin, embpin, out, pout, embpout, inout

ParamList(ps) == ConcatOK([j \in 1..Len(ps) |-> ParamItem(ps[j])], 1)

-----------------------------------------------------------------------------
(* Results: newResult / newResultObject / newResultObjectField / newResultGrouped *)

AsKind(a) == a   \* "", "I0", "IX", "I0,I0", "nil", "int", "pT0"

\* the interfaces an As option lists (after Validate accepted it)
AsList(a) == CASE a = "I0" -> <<"I0">> [] a = "IX" -> <<"IX">> [] a = "I0,I0" -> <<"I0", "I0">> [] OTHER -> <<>>

\* a type as result with the options name / group / as in force
ResultOfType(t, name, group, as) ==
  IF t \in {"IN1", "pIN1", "EPI", "INOUT", "IN2", "INE"} THEN Bad   \* cannot provide parameter objects
  ELSE IF ErrorLike(t) THEN Bad                              \* error inside a result object
  ELSE IF t \in {"OUT1", "OUT2"} THEN
       IF name # "" \/ group # "" THEN Bad
       ELSE \* the fields of the nested object(s), with the As list still in force
            LET fts == IF t = "OUT1" THEN <<"T1">> ELSE <<"T1", "T0">>
                one(ft) == IF AsList(as) = <<>> THEN <<REntry(ft, "", "")>>
                           ELSE [j \in 1..Len(AsList(as)) |-> REntry(AsList(as)[j], "", "")]
            IN  IF \E x \in DOMAIN fts : \E j \in DOMAIN AsList(as) : ~Implements(fts[x], AsList(as)[j]) THEN Bad
                ELSE IF Len(fts) = 1 THEN Good(one(fts[1])) ELSE Good(one(fts[1]) \o one(fts[2]))
  ELSE IF t \in {"EPO", "pOUT1"} THEN Bad
  ELSE IF group # "" THEN
       LET g == GroupParse(group)
           al == SelectSeq(AsList(as), LAMBDA i : i # t)
       IN  IF ~g.ok THEN Bad
           ELSE IF \E j \in DOMAIN al : ~Implements(t, al[j]) THEN Bad
           ELSE IF g.soft THEN Bad
           ELSE IF g.flatten /\ t \notin Slices THEN Bad
           ELSE IF g.flatten /\ al # <<>> THEN Bad            \* flatten cannot be combined with As
           ELSE IF al = <<>> THEN Good(<<IF g.flatten THEN FEntry(ElemOf(t), g.name) ELSE REntry(t, "", g.name)>>)
           ELSE Good([j \in 1..Len(al) |-> REntry(al[j], "", g.name)])
  ELSE LET al == SelectSeq(AsList(as), LAMBDA i : i # t) IN
       IF \E j \in DOMAIN al : ~Implements(t, al[j]) THEN Bad
       ELSE IF al = <<>> THEN Good(<<REntry(t, name, "")>>)
       ELSE Good([j \in 1..Len(al) |-> REntry(al[j], name, "")])

\* one field of a dig.Out struct; name / group / as are the options in force
ResultField(f, name, group, as) ==
  IF ~f.x THEN Bad
  ELSE IF f.grp # "" THEN
     LET g == GroupParse(f.grp) IN
     IF ~g.ok THEN Bad
     ELSE IF g.flatten /\ f.ty \notin Slices THEN Bad
     ELSE IF g.soft THEN Bad
     ELSE IF f.name # "" THEN Bad
     ELSE IF BoolOK(f.opt) /\ BoolTrue(f.opt) THEN Bad
     ELSE Good(<<IF g.flatten THEN FEntry(ElemOf(f.ty), g.name) ELSE REntry(f.ty, "", g.name)>>)
  ELSE ResultOfType(f.ty, IF f.name # "" THEN f.name ELSE name, group, as)

ResultItem(it, name, group, as) ==
  CASE it.k = "plain" -> ResultOfType(it.ty, name, group, as)
    [] it.k = "out" ->
         IF name # "" \/ group # "" THEN Bad
         ELSE ConcatOK([j \in 1..Len(it.fs) |-> ResultField(it.fs[j], name, group, as)], 1)
    [] OTHER -> Bad    \* in, pin, embpin, pout, embpout, inout

\* top-level results: error results are skipped
ResultList(rs, name, group, as) ==
  LET keep == SelectSeq(rs, LAMBDA it : ~(it.k = "plain" /\ ErrorLike(it.ty)))
  IN  ConcatOK([j \in 1..Len(keep) |-> ResultItem(keep[j], name, group, as)], 1)

-----------------------------------------------------------------------------
(* Options: provideOptions.Validate *)

OptsOK(o) ==
  /\ ~(o.group # "" /\ o.name # "")
  /\ o.name # "a`b" /\ o.group # "a`b"
  /\ o.as \notin {"nil", "int", "pT0"}

\* single keys among flat results, as <<ty, name>> pairs; a duplicate is a rejection
SingleKeys(fl) == [j \in 1..Len(fl) |-> <<fl[j].ty, fl[j].name, fl[j].grp>>]
HasDup(fl) == \E i, j \in DOMAIN fl : i < j /\ fl[i].grp = "" /\ fl[j].grp = "" /\
                 fl[i].ty = fl[j].ty /\ fl[i].name = fl[j].name

\* a signature: [nf (non-function kind or ""), ps, var, rs]
ProvideVerdict(s, o) ==
  IF s.nf # "" THEN "invalid"
  ELSE IF ~OptsOK(o) THEN "invalid"
  ELSE LET p == ParamList(s.ps)
           r == ResultList(s.rs, o.name, o.group, o.as)
       IN  IF ~p.ok \/ ~r.ok THEN "invalid"
           ELSE IF HasDup(r.flat) THEN "dup"
           ELSE IF r.flat = <<>> THEN "invalid"
           ELSE "ok"

\* Decorate: no options; a grouped result must be a slice (the whole group) and cannot be
\* flattened (a flattened [][]T would otherwise pass as the slice []T)
DecorateVerdict(s) ==
  IF s.nf # "" THEN "invalid"
  ELSE LET p == ParamList(s.ps)
           r == ResultList(s.rs, "", "", "")
       IN  IF ~p.ok \/ ~r.ok THEN "invalid"
           ELSE IF \E j \in DOMAIN r.flat : r.flat[j].grp # "" /\ (r.flat[j].fl \/ r.flat[j].ty \notin Slices) THEN "invalid"
           ELSE "ok"

\* Invoke validates the parameters only; what the function returns is ignored
InvokeVerdict(s) ==
  IF s.nf # "" THEN "invalid"
  ELSE IF ~ParamList(s.ps).ok THEN "invalid" ELSE "ok"

FlatParams(s)     == ParamList(s.ps).flat
FlatResults(s, o) == ResultList(s.rs, o.name, o.group, o.as).flat

-----------------------------------------------------------------------------
(* The bounded grammar *)

\* loc: LocationForPC with a program counter inside no function (0, 1) or a real one; cb: a
\* provider callback is attached.  Neither changes what is accepted or what is registered.
NoOpts == [name |-> "", group |-> "", as |-> "", loc |-> "", cb |-> FALSE]

Fld(x, t, n, op, g) == [x |-> x, ty |-> t, name |-> n, opt |-> op, grp |-> g]

FieldTypesP == {"T0", "sT0", "IN1", "OUT1", "pIN1", "err", "int", "IN2", "aT0", "aBig"}
FieldTypesR == {"T0", "sT0", "OUT1", "IN1", "pOUT1", "err", "NS", "ssT0", "erS", "OUT2", "aT0"}
NamesT  == {"", "n"}
OptT    == {"", "true", "false", "yes", "True", "F"}
GroupT  == {"", "g", "g ", "g,flatten", "g,soft", "g,bogus", ",flatten", "g,flatten,soft"}

FieldsP == {Fld(x, t, n, op, g) : x \in BOOLEAN, t \in FieldTypesP, n \in NamesT, op \in OptT, g \in GroupT}
FieldsR == {Fld(x, t, n, op, g) : x \in BOOLEAN, t \in FieldTypesR, n \in NamesT, op \in OptT, g \in GroupT}
\* reduced alphabets for two-field objects
FieldsP2 == {Fld(TRUE, t, n, op, g) : t \in {"T0", "sT0"}, n \in NamesT, op \in {"", "true"}, g \in {"", "g", "g,soft"}}
           \cup {Fld(FALSE, "T0", "", "", "")}
FieldsR2 == {Fld(TRUE, t, n, "", g) : t \in {"T0", "sT0"}, n \in NamesT, g \in {"", "g", "g,flatten"}}
           \cup {Fld(FALSE, "T0", "", "", "")}

Item(k, t, fs, iu) == [k |-> k, ty |-> t, fs |-> fs, iu |-> iu]
Plain(t) == Item("plain", t, <<>>, "")

ParamItems ==
  {Plain(t) : t \in {"T0", "I0", "sT0", "err", "int", "IN1", "pIN1", "OUT1", "pOUT1", "EPI", "EPO", "INOUT",
                     "erS", "IN2", "INE", "OUT2", "aT0", "aV0", "aBig", "aPB", "fnT", "mpT", "chT"}}
  \cup {Item("in", "", <<f>>, iu) : f \in FieldsP, iu \in {"", "true", "maybe"}}
  \cup {Item("in", "", <<f, g>>, iu) : f \in FieldsP2, g \in FieldsP2, iu \in {"", "true"}}
  \cup {Item("in", "", <<>>, "")}
  \cup {Item("inl", "", <<f>>, iu) : f \in {Fld(FALSE, "T0", "", "", ""), Fld(TRUE, "T0", "n", "true", ""),
                                             Fld(TRUE, "sT0", "", "", "g,soft")}, iu \in {"", "true"}}
  \cup {Item("inl", "", <<Fld(FALSE, "T1", "", "", ""), Fld(TRUE, "T0", "", "", "")>>, iu) : iu \in {"", "true"}}

ResultItems ==
  {Plain(t) : t \in {"T0", "I0", "sT0", "NS", "int", "IN1", "pIN1", "OUT1", "pOUT1", "EPI", "EPO", "INOUT",
                     "erS", "OUT2", "IN2", "aT0", "aV0", "fnT", "mpT", "chT"}}
  \cup {Item("out", "", <<f>>, "") : f \in FieldsR}
  \cup {Item("out", "", <<f, g>>, "") : f \in FieldsR2, g \in FieldsR2}
  \cup {Item("out", "", <<>>, "")}

OptSet == {[name |-> n, group |-> g, as |-> a, loc |-> "", cb |-> FALSE] :
             n \in {"", "n", "a`b"}, g \in {"", "g", "g,flatten", "g,soft", ",flatten", "g,bogus", "a`b"},
             a \in {"", "I0", "IX", "I0,I0", "nil", "int", "pT0"}}

\* vt: the element type of the variadic parameter (never looked at: a variadic parameter is
\* dropped whatever it is made of)
Fn(ps, var, rs) == [nf |-> "", ps |-> ps, var |-> var, vt |-> "str", rs |-> rs]
FnV(ps, vt, rs) == [nf |-> "", ps |-> ps, var |-> TRUE, vt |-> vt, rs |-> rs]
NonFunc(k)      == [nf |-> k, ps |-> <<>>, var |-> FALSE, vt |-> "str", rs |-> <<>>]

\* the enumerated cases: [s |-> signature, o |-> options]
CasesParams  == {[s |-> Fn(<<p>>, v, <<Plain("T7")>>), o |-> NoOpts] : p \in ParamItems, v \in BOOLEAN}
CasesParams2 == {[s |-> Fn(<<p, q>>, FALSE, <<Plain("T7")>>), o |-> NoOpts] :
                    p \in {Plain("T0"), Plain("pIN1"), Item("in", "", <<Fld(TRUE, "T1", "n", "true", "")>>, "")},
                    q \in {Plain("T1"), Plain("OUT1"), Item("in", "", <<Fld(TRUE, "sT0", "", "", "g,soft")>>, "")}}
CasesResults == {[s |-> Fn(<<>>, FALSE, <<r>>), o |-> NoOpts] : r \in ResultItems}
                \cup {[s |-> Fn(<<>>, FALSE, <<r, Plain("err")>>), o |-> NoOpts] : r \in ResultItems}
CasesResults2 == {[s |-> Fn(<<>>, FALSE, <<r, q>>), o |-> NoOpts] :
                    r \in {Plain("T0"), Plain("err"), Plain("erS"), Item("out", "", <<Fld(TRUE, "T0", "", "", "")>>, "")},
                    q \in {Plain("T0"), Plain("T1"), Plain("err"), Plain("erS"), Plain("OUT2"), Item("out", "", <<Fld(TRUE, "T0", "n", "", "")>>, ""),
                           Item("out", "", <<Fld(TRUE, "T0", "", "", "g")>>, "")}}
\* the same result-object type twice among the results of one function (its single keys collide)
CasesResultsTwice == {[s |-> Fn(<<>>, FALSE, <<r, r>>), o |-> NoOpts] :
                        r \in {Plain("OUT1"), Plain("OUT2"), Item("out", "", <<Fld(TRUE, "T0", "", "", "")>>, ""),
                               Item("out", "", <<Fld(TRUE, "T0", "n", "", "")>>, ""), Item("out", "", <<Fld(TRUE, "T0", "", "", "g")>>, ""),
                               Item("out", "", <<Fld(TRUE, "OUT1", "", "", "")>>, "")}}
CasesOpts    == {[s |-> Fn(<<>>, FALSE, <<r>>), o |-> o] :
                    r \in {Plain("T0"), Plain("sT0"), Plain("NS"), Plain("I0"), Plain("OUT1"), Plain("OUT2"),
                           Item("out", "", <<Fld(TRUE, "T0", "n", "", "")>>, "")},
                    o \in OptSet}
CasesLoc     == {[s |-> Fn(ps, FALSE, <<r>>), o |-> [NoOpts EXCEPT !.loc = l, !.cb = c]] :
                    ps \in {<<>>, <<Plain("T5")>>, <<Plain("T1")>>},
                    r \in {Plain("T0"), Plain("sT0"), Item("out", "", <<Fld(TRUE, "T0", "", "", "g")>>, "")},
                    l \in {"", "pc0", "pc1", "real"}, c \in BOOLEAN}
\* a function whose only parameter is the variadic one
CasesVariadic == {[s |-> Fn(<<>>, TRUE, <<r>>), o |-> NoOpts] : r \in {Plain("T7"), Plain("erS"), Item("out", "", <<Fld(TRUE, "T0", "", "", "g")>>, "")}}
CasesVariadicTy == {[s |-> FnV(ps, vt, <<Plain("T7")>>), o |-> NoOpts] :
                      ps \in {<<>>, <<Plain("T0")>>, <<Item("in", "", <<Fld(TRUE, "T1", "n", "true", "")>>, "")>>},
                      vt \in {"T0", "OUT1", "pOUT1", "IN1", "pIN1", "EPI", "EPO", "INOUT", "err", "IN2", "OUT2"}}
CasesNonFunc == {[s |-> NonFunc(k), o |-> NoOpts] : k \in {"nil", "int", "struct", "ptrstruct", "nilfunc"}}
                \cup {[s |-> Fn(<<>>, FALSE, <<>>), o |-> NoOpts], [s |-> Fn(<<>>, FALSE, <<Plain("err")>>), o |-> NoOpts]}

AllCases == CasesParams \cup CasesParams2 \cup CasesResults \cup CasesResults2 \cup CasesOpts \cup CasesNonFunc
            \cup CasesLoc \cup CasesVariadic \cup CasesVariadicTy \cup CasesResultsTwice

-----------------------------------------------------------------------------
(* Enumeration as a trivial state machine: one initial state per case *)

VARIABLE c

Line(x) == [s |-> x.s, o |-> x.o,
            pv |-> ProvideVerdict(x.s, x.o), dv |-> DecorateVerdict(x.s), iv |-> InvokeVerdict(x.s),
            fp |-> FlatParams(x.s), fr |-> FlatResults(x.s, x.o), frd |-> FlatResults(x.s, NoOpts)]

SigInit == c \in AllCases /\ PrintT(ToJson(Line(c)))
SigNext == UNCHANGED c
SigSpec == SigInit /\ [][SigNext]_c

(* Internal theorems, evaluated for every case *)

\* a signature whose parameters are rejected is rejected by all three entry points
T_ParamsShared == ~ParamList(c.s.ps).ok =>
   ProvideVerdict(c.s, c.o) = "invalid" /\ DecorateVerdict(c.s) = "invalid" /\ InvokeVerdict(c.s) = "invalid"
\* an accepted Provide has at least one result and no two equal single keys
T_AcceptedHasKeys == ProvideVerdict(c.s, c.o) = "ok" =>
   FlatResults(c.s, c.o) # <<>> /\ ~HasDup(FlatResults(c.s, c.o))
\* flat parameters never carry both a name and a group, groups are slices and never optional
T_FlatParamShape == \A j \in DOMAIN FlatParams(c.s) :
   LET p == FlatParams(c.s)[j] IN
     /\ ~(p.name # "" /\ p.grp # "")
     /\ p.grp # "" => (p.ty \in Slices /\ ~p.opt)
     /\ p.soft => p.grp # ""
\* flat results never carry both a name and a group; group names are never empty
T_FlatResultShape == \A j \in DOMAIN FlatResults(c.s, c.o) :
   LET r == FlatResults(c.s, c.o)[j] IN ~(r.name # "" /\ r.grp # "")
\* Invoke accepts whatever Provide accepts on the parameter side
T_InvokeWeaker == ProvideVerdict(c.s, c.o) = "ok" => InvokeVerdict(c.s) = "ok"
=============================================================================

#!/bin/bash
# usage: check.sh <property id> [quick|thorough]
# Rebuilds the harness against /repo's current working tree (build tag verif) and runs the
# check of one property. Exit 0: held on everything explored; 1: VIOLATION line printed;
# 2: infrastructure problem (never a verdict).
export GOFLAGS=-mod=mod GOPROXY=off GOSUMDB=off GOTOOLCHAIN=local
root="$(cd "$(dirname "$0")" && pwd)"
export VERIF_ROOT="$root"
mkdir -p "$root/.work/bin"
bin="$root/.work/bin/check.$$"
repo="${VERIF_REPO:-/repo}"
cp "$repo/go.sum" "$root/harness/go.sum" 2>/dev/null
modflag=""
if [ "$repo" != "/repo" ]; then
  # development aid: check a scratch copy of the repository instead of /repo
  sed "s#=> /repo#=> $repo#" "$root/harness/go.mod" > "$root/.work/bin/go.$$.mod"
  cp "$root/harness/go.sum" "$root/.work/bin/go.$$.sum"
  modflag="-modfile=$root/.work/bin/go.$$.mod"
fi
if ! (cd "$root/harness" && go build $modflag -tags verif -o "$bin" ./cmd/check) ; then
  echo "INFRA: the harness does not build against /repo's working tree"
  # a tree that does not compile with the hooks is not a verdict about the property
  exit 2
fi
"$bin" prop "$@"
rc=$?
rm -f "$bin" "$root/.work/bin/go.$$.mod" "$root/.work/bin/go.$$.sum"
exit $rc

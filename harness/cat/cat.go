// Package cat defines the catalog: the data that says which functions exist in one
// container tree (flat parameter and result lists, the scope each is given to, options).
// The same catalog is (a) an element of the TLA+ constant Cats and (b) the recipe from which
// the harness manufactures real Go functions for dig.
package cat

import (
	"encoding/json"
	"fmt"
	"sort"
	"strings"
)

// Param is one flat parameter. M: req | opt | grp | soft. O: 0 = positional, >0 = number of the
// parameter object (a maximal run of equal O is one dig.In struct). P: path of nested parameter
// objects below object O that hold the field (empty: a direct field of O); parameters with a
// common path prefix are contiguous and sit in the same nested object.
type Param struct {
	K string `json:"k"`
	M string `json:"m"`
	O int    `json:"o"`
	P []int  `json:"p,omitempty"`
}

// Path is the full object path of the parameter: empty for a positional parameter.
func (p Param) Path() []int {
	if p.O == 0 {
		return nil
	}
	return append([]int{p.O}, p.P...)
}

// Result is one flat result. Ks: the keys it is stored under (several with As, all sharing one
// instance). M: one | grp | flat. N: number of elements (flat results, decorated groups).
// CT (harness only): concrete type of the produced value. O (harness only): 0 = positional,
// >0 = number of the result object.
type Result struct {
	Ks []string `json:"ks"`
	M  string   `json:"m"`
	N  int      `json:"n"`
	CT string   `json:"ct,omitempty"`
	O  int      `json:"o,omitempty"`
}

// Enc holds the encoding choices the specification ignores and the harness honours.
type Enc struct {
	Variadic bool   `json:"variadic,omitempty"` // append a variadic parameter
	Nest     int    `json:"nest,omitempty"`     // wrap every parameter object Nest levels deeper
	RNest    bool   `json:"rnest,omitempty"`    // result objects hold all but their first field in a nested result object
	NilRes   bool   `json:"nilres,omitempty"`   // single results are nil pointers (values like any other: stored, cached, injected)
	ViaOpt   bool   `json:"viaopt,omitempty"`   // name / group / As given by Provide options instead of tags
	NoErr    bool   `json:"noerr,omitempty"`    // no trailing error result
	ErrFirst bool   `json:"errfirst,omitempty"` // the error result comes first instead of last
	Lib      string `json:"lib,omitempty"`      // use the declared library function of that name
}

// Fn is one function of the catalog. Kind: ctor | dec | inv.
type Fn struct {
	Kind  string   `json:"kind"`
	Scope string   `json:"scope"`
	Exp   bool     `json:"exp"`
	Cb    bool     `json:"cb"`
	Dur   int      `json:"dur"`
	Inv   string   `json:"inv"`
	Ps    []Param  `json:"ps"`
	Rs    []Result `json:"rs"`
	Enc   Enc      `json:"enc"`
	// Nest: the Invoke calls the body of the function makes on the container while it runs
	// (function I of kind inv on scope S), in order, before it returns
	Nest []NestCall `json:"nest,omitempty"`
}

// NestCall is one re-entrant Invoke made by a user function.
type NestCall struct {
	I string `json:"i"`
	S string `json:"s"`
}

// Opts are the container options.
type Opts struct {
	Defer   bool `json:"defer"`
	Recover bool `json:"recover"`
	Dry     bool `json:"dry"`
}

// Catalog is one program universe.
type Catalog struct {
	Parent map[string]string `json:"parent"` // scope -> parent ("" for the root "r")
	Opts   []Opts            `json:"opts"`   // option records a container may start with
	Fns    map[string]*Fn    `json:"fns"`
	Note   string            `json:"note,omitempty"`
	// Order, if not empty, fixes the order in which the functions it lists are offered to
	// Provide / Decorate, and delays Invokes until all of them were (large catalogs whose
	// registration interleavings cannot be exhausted)
	Order []string `json:"order,omitempty"`
}

// NestedInvs is the set of functions that are only invoked from inside other user functions.
func (c *Catalog) NestedInvs() map[string]bool {
	m := map[string]bool{}
	for _, f := range c.Fns {
		for _, nc := range f.Nest {
			m[nc.I] = true
		}
	}
	return m
}

// FnIDs returns the function ids in sorted order.
func (c *Catalog) FnIDs() []string {
	ids := make([]string, 0, len(c.Fns))
	for id := range c.Fns {
		ids = append(ids, id)
	}
	sort.Strings(ids)
	return ids
}

// ScopeIDs returns scopes in an order where parents precede children.
func (c *Catalog) ScopeIDs() []string {
	var out []string
	var rec func(p string)
	rec = func(p string) {
		var kids []string
		for s, par := range c.Parent {
			if par == p {
				kids = append(kids, s)
			}
		}
		sort.Strings(kids)
		for _, k := range kids {
			out = append(out, k)
			rec(k)
		}
	}
	rec("")
	return out
}

// Path returns s, parent(s), ..., root.
func (c *Catalog) Path(s string) []string {
	var p []string
	for s != "" {
		p = append(p, s)
		s = c.Parent[s]
	}
	return p
}

// Home is the scope where the registration and the results of f live.
func (c *Catalog) Home(f string) string {
	if c.Fns[f].Exp {
		return "r"
	}
	return c.Fns[f].Scope
}

// JSON renders the catalog.
func (c *Catalog) JSON() string {
	b, err := json.Marshal(c)
	if err != nil {
		panic(err)
	}
	return string(b)
}

// Clone deep-copies via JSON.
func (c *Catalog) Clone() *Catalog {
	var d Catalog
	if err := json.Unmarshal([]byte(c.JSON()), &d); err != nil {
		panic(err)
	}
	return &d
}

func q(s string) string { b, _ := json.Marshal(s); return string(b) }

func tlaBool(b bool) string {
	if b {
		return "TRUE"
	}
	return "FALSE"
}

func tlaStrSeq(ss []string) string {
	qs := make([]string, len(ss))
	for i, s := range ss {
		qs[i] = q(s)
	}
	return "<<" + strings.Join(qs, ", ") + ">>"
}

// TLA renders the part of the catalog the specification reads as a TLA+ record literal.
func (c *Catalog) TLA() string {
	var b strings.Builder
	b.WriteString("[parent |-> [")
	scopes := c.ScopeIDs()
	for i, s := range scopes {
		if i > 0 {
			b.WriteString(", ")
		}
		fmt.Fprintf(&b, "%s |-> %s", s, q(c.Parent[s]))
	}
	b.WriteString("], order |-> " + tlaStrSeq(c.Order) + ", opts |-> <<")
	for i, o := range c.Opts {
		if i > 0 {
			b.WriteString(", ")
		}
		b.WriteString(o.TLA())
	}
	if len(c.Fns) == 0 {
		b.WriteString(">>, fns |-> <<>>]")
		return b.String()
	}
	b.WriteString(">>, fns |-> [")
	for i, id := range c.FnIDs() {
		f := c.Fns[id]
		if i > 0 {
			b.WriteString(", ")
		}
		fmt.Fprintf(&b, "%s |-> [kind |-> %s, scope |-> %s, exp |-> %s, cb |-> %s, dur |-> %d, inv |-> %s, nilres |-> %s, ps |-> <<",
			id, q(f.Kind), q(f.Scope), tlaBool(f.Exp), tlaBool(f.Cb), f.Dur, q(f.Inv), tlaBool(f.Enc.NilRes))
		for j, p := range f.Ps {
			if j > 0 {
				b.WriteString(", ")
			}
			path := make([]string, 0, 1+len(p.P))
			for _, x := range p.Path() {
				path = append(path, fmt.Sprint(x))
			}
			fmt.Fprintf(&b, "[k |-> %s, m |-> %s, op |-> <<%s>>]", q(p.K), q(p.M), strings.Join(path, ", "))
		}
		b.WriteString(">>, nest |-> <<")
		for j, nc := range f.Nest {
			if j > 0 {
				b.WriteString(", ")
			}
			fmt.Fprintf(&b, "[i |-> %s, s |-> %s]", q(nc.I), q(nc.S))
		}
		b.WriteString(">>, rs |-> <<")
		for j, r := range f.Rs {
			if j > 0 {
				b.WriteString(", ")
			}
			fmt.Fprintf(&b, "[ks |-> %s, m |-> %s, n |-> %d]", tlaStrSeq(r.Ks), q(r.M), r.N)
		}
		b.WriteString(">>]")
	}
	b.WriteString("]]")
	return b.String()
}

// TLA renders an option record.
func (o Opts) TLA() string {
	return fmt.Sprintf("[defer |-> %s, recover |-> %s, dry |-> %s]", tlaBool(o.Defer), tlaBool(o.Recover), tlaBool(o.Dry))
}

// CatsModule renders the TLA+ data module DigCats defining Cats as the sequence of the given catalogs.
func CatsModule(cats []*Catalog) string {
	name := "DigCats"
	var b strings.Builder
	fmt.Fprintf(&b, "---- MODULE %s ----\n", name)
	b.WriteString("\\* generated by harness/cmd/check; do not edit\n")
	b.WriteString("Cats == <<\n")
	for i, c := range cats {
		if i > 0 {
			b.WriteString(",\n")
		}
		b.WriteString("  ")
		b.WriteString(c.TLA())
	}
	b.WriteString("\n>>\n====\n")
	return b.String()
}

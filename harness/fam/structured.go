package fam

import (
	"fmt"
	"math/rand"

	"verif/harness/cat"
)

// Structured families: small motifs enumerated systematically over scope placements, Export
// flags, parameter modes and decorator placements. Each catalog is tiny (TLC explores all of
// its histories in well under a second); the family size is what is budgeted.

// Place says where a constructor is provided and whether with Export(true).
type Place struct {
	Scope string
	Exp   bool
}

var chainTree = map[string]string{"r": "", "a": "r", "b": "a"}
var fanTree = map[string]string{"r": "", "a": "r", "b": "r"}

func places() []Place {
	return []Place{{"r", false}, {"a", false}, {"a", true}, {"b", false}, {"b", true}}
}

func ctor(p Place, ps []cat.Param, rs ...cat.Result) *cat.Fn {
	return &cat.Fn{Kind: "ctor", Scope: p.Scope, Exp: p.Exp, Ps: ps, Rs: rs}
}

func one(k string) cat.Result { return cat.Result{Ks: []string{k}, M: "one"} }

func par(k, m string, o int) cat.Param { return cat.Param{K: k, M: m, O: o} }

func inv(ps ...cat.Param) *cat.Fn { return &cat.Fn{Kind: "inv", Ps: ps} }

func dec(scope string, ps []cat.Param, rs ...cat.Result) *cat.Fn {
	return &cat.Fn{Kind: "dec", Scope: scope, Ps: ps, Rs: rs}
}

func copyTree(t map[string]string) map[string]string {
	m := map[string]string{}
	for k, v := range t {
		m[k] = v
	}
	return m
}

func finish(c *cat.Catalog, opts []cat.Opts, cb bool) *cat.Catalog {
	d := 1
	for x, id := range c.FnIDs() {
		f := c.Fns[id]
		f.Dur = d
		d *= 2
		// vary the encodings the specification does not see, deterministically
		h := (len(c.Note)*7 + x*13 + len(c.Fns)) % 10
		f.Enc.ErrFirst = f.Kind != "inv" && h < 2
		f.Enc.Variadic = h == 5
		if h == 7 {
			f.Enc.Nest = 1
		}
		if h == 3 || h == 8 {
			f.Enc.RNest = f.Kind != "inv"
		}
		f.Enc.NilRes = f.Kind == "ctor" && h == 4
		if cb && f.Kind != "inv" {
			f.Cb = true
		}
		fixObjects(f)
	}
	c.Opts = opts
	return c
}

func objIf(m string) int {
	if m == "req" {
		return 0
	}
	return 1
}

// decorator variants for the two-key chain motif: index 0 = none
func chainDecorators() []func() map[string]*cat.Fn {
	var out []func() map[string]*cat.Fn
	out = append(out, func() map[string]*cat.Fn { return nil })
	for _, s := range []string{"r", "a", "b"} {
		s := s
		out = append(out,
			func() map[string]*cat.Fn {
				return map[string]*cat.Fn{"d1": dec(s, []cat.Param{par("T0", "req", 0)}, one("T0"))}
			},
			func() map[string]*cat.Fn {
				return map[string]*cat.Fn{"d1": dec(s, []cat.Param{par("T1", "req", 0)}, one("T1"))}
			},
			func() map[string]*cat.Fn {
				return map[string]*cat.Fn{"d1": dec(s, nil, one("T0"))}
			},
			func() map[string]*cat.Fn {
				return map[string]*cat.Fn{"d1": dec(s, []cat.Param{par("T0", "req", 0), par("T1", "req", 0)}, one("T0"), one("T1"))}
			},
		)
	}
	for _, s := range []string{"r", "a", "b"} {
		s := s
		out = append(out,
			// a decorator of T0 that consumes T1, whose constructor depends on T0
			func() map[string]*cat.Fn {
				return map[string]*cat.Fn{"d1": dec(s, []cat.Param{par("T0", "req", 0), par("T1", "req", 0)}, one("T0"))}
			},
			// two decorators in one scope: the second conflicts with the first on its second key
			func() map[string]*cat.Fn {
				return map[string]*cat.Fn{
					"d1": dec(s, []cat.Param{par("T1", "req", 0)}, one("T1")),
					"d2": dec(s, []cat.Param{par("T0", "req", 0), par("T1", "req", 0)}, one("T0"), one("T1")),
				}
			})
	}
	// two decorators of the same key at two levels
	out = append(out, func() map[string]*cat.Fn {
		return map[string]*cat.Fn{
			"d1": dec("r", []cat.Param{par("T0", "req", 0)}, one("T0")),
			"d2": dec("a", []cat.Param{par("T0", "req", 0)}, one("T0")),
		}
	})
	return out
}

// Chain is the motif  c1: () -> T0 ;  c2: (T0) -> T1 ;  i1: (T1) ; i2: (T0)
// over every placement of c1 and c2 on a 3-scope tree with Export, required / optional
// edges, and decorators of T0 / T1 at every level.
func Chain(opts []cat.Opts, cb bool) []*cat.Catalog {
	var out []*cat.Catalog
	for ti, tree := range []map[string]string{chainTree, fanTree} {
		for _, p1 := range places() {
			for _, p2 := range places() {
				for _, m2 := range []string{"req", "opt"} {
					for _, mi := range []string{"req", "opt"} {
						for di, mk := range chainDecorators() {
							if ti == 1 && di > 4 && di%2 == 0 {
								continue // thin out the fan tree
							}
							c := &cat.Catalog{Parent: copyTree(tree), Fns: map[string]*cat.Fn{}}
							c.Fns["c1"] = ctor(p1, nil, one("T0"))
							c.Fns["c2"] = ctor(p2, []cat.Param{par("T0", m2, objIf(m2))}, one("T1"))
							c.Fns["i1"] = inv(par("T1", mi, objIf(mi)))
							c.Fns["i2"] = inv(par("T0", "req", 0))
							for id, f := range mk() {
								c.Fns[id] = f
							}
							c.Note = fmt.Sprintf("chain tree=%d c1=%v c2=%v m2=%s mi=%s dec=%d", ti, p1, p2, m2, mi, di)
							out = append(out, finish(c, opts, cb))
						}
					}
				}
			}
		}
	}
	return out
}

// Shadow is the motif: T0 provided in any non-empty subset of {r, a, b}; c4: (T0) -> T1 placed
// anywhere (with Export); decorators of T0; consumers of T1 and T0.
func Shadow(opts []cat.Opts, cb bool) []*cat.Catalog {
	var out []*cat.Catalog
	scopes := []string{"r", "a", "b"}
	for mask := 1; mask < 8; mask++ {
		for _, p := range places() {
			for di, mk := range chainDecorators() {
				if di > 0 && (di-1)%4 == 1 {
					continue // decorators of T1 only are covered by Chain
				}
				c := &cat.Catalog{Parent: copyTree(chainTree), Fns: map[string]*cat.Fn{}}
				for i, s := range scopes {
					if mask&(1<<i) != 0 {
						c.Fns[fmt.Sprintf("c%d", i+1)] = ctor(Place{s, false}, nil, one("T0"))
					}
				}
				c.Fns["c4"] = ctor(p, []cat.Param{par("T0", "req", 0)}, one("T1"))
				c.Fns["i1"] = inv(par("T1", "req", 0))
				c.Fns["i2"] = inv(par("T0", "req", 0))
				for id, f := range mk() {
					c.Fns[id] = f
				}
				c.Note = fmt.Sprintf("shadow mask=%d c4=%v dec=%d", mask, p, di)
				out = append(out, finish(c, opts, cb))
			}
		}
	}
	return out
}

// Groups is the motif: two feeders of group T2@g (one plain that also provides T3, one flatten
// of length 2) placed anywhere with Export; a consumer constructor c3 with a hard or soft group
// parameter (plus T3 in the same object, so that the soft rule is exercised); group decorators
// at every level; Invokes of the group itself, of c3's output and of T3.
func Groups(opts []cat.Opts, cb bool) []*cat.Catalog {
	var out []*cat.Catalog
	grp := func(k string) cat.Result { return cat.Result{Ks: []string{k}, M: "grp"} }
	flat := func(k string, n int) cat.Result { return cat.Result{Ks: []string{k}, M: "flat", N: n} }
	decVariants := []func() map[string]*cat.Fn{
		func() map[string]*cat.Fn { return nil },
	}
	for _, s := range []string{"r", "a", "b"} {
		s := s
		decVariants = append(decVariants,
			func() map[string]*cat.Fn {
				return map[string]*cat.Fn{"d1": dec(s, []cat.Param{par("T2@g", "grp", 1)}, cat.Result{Ks: []string{"T2@g"}, M: "grp", N: 1, O: 1})}
			},
			func() map[string]*cat.Fn {
				return map[string]*cat.Fn{"d1": dec(s, []cat.Param{par("T2@g", "soft", 1)}, cat.Result{Ks: []string{"T2@g"}, M: "grp", N: 2, O: 1})}
			})
	}
	decVariants = append(decVariants, func() map[string]*cat.Fn {
		return map[string]*cat.Fn{
			"d1": dec("r", []cat.Param{par("T2@g", "grp", 1)}, cat.Result{Ks: []string{"T2@g"}, M: "grp", N: 1, O: 1}),
			"d2": dec("a", []cat.Param{par("T2@g", "grp", 1)}, cat.Result{Ks: []string{"T2@g"}, M: "grp", N: 2, O: 1}),
		}
	})
	// an inner decorator of the group and of a single key at once: it may be started through
	// either key and must be handed the outer decorator's slice both times
	decVariants = append(decVariants, func() map[string]*cat.Fn {
		return map[string]*cat.Fn{
			"d1": dec("r", []cat.Param{par("T2@g", "grp", 1)}, cat.Result{Ks: []string{"T2@g"}, M: "grp", N: 1, O: 1}),
			"d2": dec("a", []cat.Param{par("T2@g", "grp", 1), par("T3", "req", 1)}, cat.Result{Ks: []string{"T2@g"}, M: "grp", N: 2, O: 1}, cat.Result{Ks: []string{"T3"}, M: "one", O: 1}),
		}
	})
	// an outer decorator of the group that also needs T1 - the output of c3, which consumes the
	// group itself: while the outer decorator waits for T1, c3 is handed the group as the inner
	// decorator (one scope further down) makes it, the outer one being skipped
	decVariants = append(decVariants, func() map[string]*cat.Fn {
		return map[string]*cat.Fn{
			"d1": dec("r", []cat.Param{par("T2@g", "grp", 1), par("T1", "req", 1)}, cat.Result{Ks: []string{"T2@g"}, M: "grp", N: 1, O: 1}),
			"d2": dec("a", []cat.Param{par("T2@g", "grp", 1)}, cat.Result{Ks: []string{"T2@g"}, M: "grp", N: 2, O: 1}),
		}
	})
	for _, p1 := range places() {
		for pi2, p2 := range places() {
			for _, gm := range []string{"grp", "soft"} {
				for _, s3 := range []string{"r", "a", "b"} {
					for di, mk := range decVariants {
						if gm == "soft" && di > 0 && di%2 == 0 {
							continue
						}
						c := &cat.Catalog{Parent: copyTree(chainTree), Fns: map[string]*cat.Fn{}}
						c.Fns["c1"] = ctor(p1, nil, grp("T2@g"), cat.Result{Ks: []string{"T3"}, M: "one"})
						c.Fns["c2"] = ctor(p2, nil, flat("T2@g", []int{2, 0, 2, 1, 2}[(pi2+di)%5]))
						c.Fns["c3"] = ctor(Place{s3, false}, []cat.Param{par("T2@g", gm, 1), par("T3", "opt", 1)}, one("T1"))
						c.Fns["i1"] = inv(par("T1", "req", 0))
						c.Fns["i2"] = inv(par("T2@g", "grp", 1))
						c.Fns["i3"] = inv(par("T2@g", "soft", 1), par("T3", "req", 1))
						for id, f := range mk() {
							c.Fns[id] = f
						}
						if di == len(decVariants)-1 {
							c.Fns["c3"].Exp = s3 != "r" // the outer decorator has to see c3
						}
						c.Note = fmt.Sprintf("groups c1=%v c2=%v gm=%s c3=%s dec=%d", p1, p2, gm, s3, di)
						out = append(out, finish(c, opts, cb))
					}
				}
			}
		}
	}
	return out
}

// SoftNest is the soft-group motif: the feeders of Groups (c1 also provides T3, c2 flattens)
// and a consumer whose parameters hold a soft group and the single key T3 in every layout of
// one object, two objects and nested objects (the soft field before / after / inside / outside
// the nested object, two levels deep), plus a hard group of the same name next to the soft one.
// The consumer is the invoked function itself (i3) and a constructor (c3, behind i1), so that
// with one fault its parameters are built a second time.
func SoftNest(opts []cat.Opts, cb bool) []*cat.Catalog {
	var out []*cat.Catalog
	grp := func(k string) cat.Result { return cat.Result{Ks: []string{k}, M: "grp"} }
	flat := func(k string, n int) cat.Result { return cat.Result{Ks: []string{k}, M: "flat", N: n} }
	pp := func(k, m string, o int, path ...int) cat.Param { return cat.Param{K: k, M: m, O: o, P: path} }
	layouts := [][]cat.Param{
		{pp("T2@g", "soft", 1), pp("T3", "req", 1)},
		{pp("T3", "req", 1), pp("T2@g", "soft", 1)},
		{pp("T2@g", "soft", 1), pp("T3", "req", 1, 1)},
		{pp("T3", "req", 1, 1), pp("T2@g", "soft", 1)},
		{pp("T2@g", "soft", 1, 1), pp("T3", "req", 1, 1)},
		{pp("T2@g", "soft", 1, 1), pp("T3", "req", 1)},
		{pp("T2@g", "soft", 1), pp("T3", "req", 2)},
		{pp("T2@g", "soft", 1), pp("T0", "opt", 1, 1), pp("T3", "req", 1, 1, 1)},
		{pp("T2@g", "soft", 1), pp("T3", "opt", 1, 1), pp("T2@h", "soft", 1, 1), pp("T0", "opt", 1)},
		{pp("T2@g", "soft", 1), pp("T2@g", "grp", 1, 1)},
		{pp("T2@g", "soft", 1, 1), pp("T2@g", "grp", 1)},
	}
	for _, p1 := range places() {
		for pi2, p2 := range places() {
			for li, lay := range layouts {
				for _, s3 := range []string{"r", "b"} {
					c := &cat.Catalog{Parent: copyTree(chainTree), Fns: map[string]*cat.Fn{}}
					c.Fns["c1"] = ctor(p1, nil, grp("T2@g"), cat.Result{Ks: []string{"T3"}, M: "one"})
					c.Fns["c2"] = ctor(p2, nil, flat("T2@g", []int{2, 1, 0}[(pi2+li)%3]), one("T0"))
					c.Fns["c3"] = ctor(Place{s3, false}, append([]cat.Param(nil), lay...), one("T1"))
					c.Fns["i1"] = inv(par("T1", "req", 0))
					c.Fns["i3"] = inv(append([]cat.Param(nil), lay...)...)
					c.Note = fmt.Sprintf("softnest c1=%v c2=%v layout=%d c3=%s", p1, p2, li, s3)
					out = append(out, finish(c, opts, cb))
				}
			}
		}
	}
	return out
}

// IfaceGroups is the group motif over a group of *interfaces*: c1 feeds one member (a concrete
// value under I0) and provides T3, c2 flattens a slice of I0 of length 1 or 2 whose first member
// may be a nil interface (a member like any other), placed anywhere with Export; a consumer
// constructor, an optional decorator of the group, Invokes of the group and of the consumer.
func IfaceGroups(opts []cat.Opts, cb bool) []*cat.Catalog {
	var out []*cat.Catalog
	grp := func(k string) cat.Result { return cat.Result{Ks: []string{k}, M: "grp"} }
	for _, p2 := range places() {
		for n := 1; n <= 2; n++ {
			for _, nilFirst := range []bool{false, true} {
				for dv := 0; dv < 2; dv++ {
					c := &cat.Catalog{Parent: copyTree(chainTree), Fns: map[string]*cat.Fn{}}
					c.Fns["c1"] = ctor(Place{"r", false}, nil, grp("I0@g"), one("T3"))
					c.Fns["c2"] = ctor(p2, nil, cat.Result{Ks: []string{"I0@g"}, M: "flat", N: n})
					c.Fns["c3"] = ctor(Place{"a", false}, []cat.Param{par("I0@g", "grp", 1), par("T3", "opt", 1)}, one("T1"))
					c.Fns["i1"] = inv(par("T1", "req", 0))
					c.Fns["i2"] = inv(par("I0@g", "grp", 1))
					if dv == 1 {
						c.Fns["d1"] = dec("r", []cat.Param{par("I0@g", "grp", 1)}, cat.Result{Ks: []string{"I0@g"}, M: "grp", N: 1, O: 1})
					}
					c.Order = [][]string{{"c1", "c2", "c3"}, {"c2", "c3", "c1"}, {"c3", "c1", "c2"}}[(n+dv)%3]
					c.Note = fmt.Sprintf("ifacegroups c2=%v n=%d nil=%v dec=%d", p2, n, nilFirst, dv)
					finish(c, opts, cb)
					for _, f := range c.Fns {
						f.Enc.NilRes = false
					}
					c.Fns["c2"].Enc.NilRes = nilFirst
					out = append(out, c)
				}
			}
		}
	}
	return out
}

// DecPairs is the motif of two decorators meeting: every pair of decorators over the keys T0,
// T2 (the element type of the group, as a single value), T2@g, T2@h and the pair (T2@g, T0), both in one scope or one
// above the other, over a constructor feeding both groups and providing T0 and T2. A scope takes
// one decorator per key and no more, in whatever order they arrive; a single value and a group
// of the same element type are different keys, and so are two groups of different names.
func DecPairs(opts []cat.Opts, cb bool) []*cat.Catalog {
	var out []*cat.Catalog
	grp := func(k string) cat.Result { return cat.Result{Ks: []string{k}, M: "grp"} }
	kinds := []func(s string) *cat.Fn{
		func(s string) *cat.Fn { return dec(s, []cat.Param{par("T0", "req", 0)}, one("T0")) },
		func(s string) *cat.Fn { return dec(s, []cat.Param{par("T2", "req", 0)}, one("T2")) },
		func(s string) *cat.Fn {
			return dec(s, []cat.Param{par("T2@g", "grp", 1)}, cat.Result{Ks: []string{"T2@g"}, M: "grp", N: 1, O: 1})
		},
		func(s string) *cat.Fn {
			return dec(s, []cat.Param{par("T2@h", "grp", 1)}, cat.Result{Ks: []string{"T2@h"}, M: "grp", N: 2, O: 1})
		},
		// two keys at once, the group first: refused as a whole when the second key is taken
		func(s string) *cat.Fn {
			return dec(s, []cat.Param{par("T2@g", "grp", 1), par("T0", "req", 1)}, cat.Result{Ks: []string{"T2@g"}, M: "grp", N: 1, O: 1}, cat.Result{Ks: []string{"T0"}, M: "one", O: 1})
		},
	}
	for k1 := range kinds {
		for k2 := range kinds {
			for _, sp := range [][2]string{{"r", "r"}, {"a", "a"}, {"r", "a"}} {
				c := &cat.Catalog{Parent: copyTree(chainTree), Fns: map[string]*cat.Fn{}}
				c.Fns["c1"] = ctor(Place{"r", false}, nil, grp("T2@g"), grp("T2@h"), one("T0"))
				c.Fns["c2"] = ctor(Place{[]string{"r", "a"}[(k1+k2)%2], false}, nil, one("T2"))
				c.Fns["d1"] = kinds[k1](sp[0])
				c.Fns["d2"] = kinds[k2](sp[1])
				c.Fns["i1"] = inv(par("T0", "req", 1), par("T2@g", "grp", 1), par("T2@h", "grp", 1), par("T2", "opt", 1))
				c.Fns["i2"] = inv(par("T2@g", "soft", 1), par("T2", "opt", 1))
				c.Order = []string{"c1", "c2"}
				c.Note = fmt.Sprintf("decpairs k1=%d k2=%d scopes=%v", k1, k2, sp)
				out = append(out, finish(c, opts, cb))
			}
		}
	}
	return out
}

// Gaps is the motif of a missing dependency far below an optional edge:
//
//	c1: (T5 req|opt) -> member of T2@g     (T5 is provided by c4, or by nobody)
//	c2: ([]T2@g hard|soft, in an object or not) -> T0
//	c3: (T0 req|opt) -> T1
//	i1: (T1 opt)   i2: (T0 opt)   i3: (T1 req)   i4: (T1 opt, []T2@g)
//
// plus, optionally, a decorator of T0 or of the group that needs T6, which nobody provides.
// An optional edge tolerates exactly the failures that are a dependency somebody did not
// provide - through single values, through value groups and through decorators alike - and
// nothing else; whatever sits on such a path must not run when the gap is known beforehand.
func Gaps(opts []cat.Opts, cb bool) []*cat.Catalog {
	var out []*cat.Catalog
	grp := func(k string) cat.Result { return cat.Result{Ks: []string{k}, M: "grp"} }
	decVariants := []func(s string) map[string]*cat.Fn{
		func(string) map[string]*cat.Fn { return nil },
		func(s string) map[string]*cat.Fn {
			return map[string]*cat.Fn{"d1": dec(s, []cat.Param{par("T0", "req", 0), par("T6", "req", 0)}, one("T0"))}
		},
		func(s string) map[string]*cat.Fn {
			return map[string]*cat.Fn{"d1": dec(s, []cat.Param{par("T2@g", "grp", 1), par("T6", "req", 1)}, cat.Result{Ks: []string{"T2@g"}, M: "grp", N: 1, O: 1})}
		},
		func(s string) map[string]*cat.Fn {
			return map[string]*cat.Fn{"d1": dec(s, []cat.Param{par("T1", "req", 0), par("T6", "opt", 1)}, one("T1"))}
		},
	}
	for pi1, p1 := range places() {
		for _, t5 := range []string{"", "r", "b"} {
			for _, m1 := range []string{"req", "opt"} {
				for _, gm := range []string{"grp", "soft"} {
					for _, m3 := range []string{"req", "opt"} {
						for di, mk := range decVariants {
							for _, ds := range []string{"r", "b"} {
								if di == 0 && ds == "b" {
									continue
								}
								c := &cat.Catalog{Parent: copyTree(chainTree), Fns: map[string]*cat.Fn{}}
								c.Fns["c1"] = ctor(p1, []cat.Param{par("T5", m1, objIf(m1))}, grp("T2@g"))
								c.Fns["c2"] = ctor(Place{[]string{"r", "a"}[(pi1+di)%2], false}, []cat.Param{par("T2@g", gm, 1)}, one("T0"))
								c.Fns["c3"] = ctor(Place{[]string{"r", "a", "b"}[(pi1+di)%3], false}, []cat.Param{par("T0", m3, objIf(m3))}, one("T1"))
								if t5 != "" {
									c.Fns["c4"] = ctor(Place{t5, false}, nil, one("T5"))
								}
								if c.Fns["c2"].Scope == "a" && (pi1+len(m3))%2 == 0 {
									// the root provides T0 as well: from "a" downwards it is shadowed by
									// c2, and stays shadowed when c2 cannot be built
									c.Fns["c5"] = ctor(Place{"r", false}, nil, one("T0"))
								}
								c.Fns["i1"] = inv(par("T1", "opt", 1))
								c.Fns["i2"] = inv(par("T0", "opt", 1))
								c.Fns["i3"] = inv(par("T1", "req", 0))
								c.Fns["i4"] = inv(par("T1", "opt", 1), par("T2@g", "grp", 1))
								for id, f := range mk(ds) {
									c.Fns[id] = f
								}
								// registration order matters little here: one rotation per catalog (the
								// decorator stays free and may arrive between two Invokes)
								ord := []string{"c1", "c2", "c3"}
								if t5 != "" {
									ord = append(ord, "c4")
								}
								if c.Fns["c5"] != nil {
									ord = append(ord, "c5")
								}
								rot := (pi1 + di + len(m1) + len(gm)) % len(ord)
								c.Order = append(append([]string(nil), ord[rot:]...), ord[:rot]...)
								c.Note = fmt.Sprintf("gaps c1=%v t5=%q m1=%s gm=%s m3=%s dec=%d@%s", p1, t5, m1, gm, m3, di, ds)
								out = append(out, finish(c, opts, cb))
							}
						}
					}
				}
			}
		}
	}
	return out
}

// Reenter is the re-entrancy motif: c1 provides T0, c2 builds T1 from T0, c3 provides T2 and a
// member of group T3@g; one function - the constructor c1, a decorator d1 of T0, or the invoked
// function i1 - calls Invoke again while it runs, asking for its own product (directly or through
// c2: the demand must be refused as a cycle, c1 must not be entered again), for something
// unrelated (built and cached during the nested call), for something missing, optionally, or for
// a group; from its own scope or an ancestor. With one fault the nested call itself fails.
func Reenter(opts []cat.Opts, cb bool) []*cat.Catalog {
	var out []*cat.Catalog
	asks := [][]cat.Param{
		{par("T0", "req", 0)},
		{par("T1", "req", 0)},
		{par("T2", "req", 0)},
		{par("T4", "req", 0)},
		{par("T1", "opt", 1), par("T2", "req", 1)},
		{par("T3@g", "grp", 1), par("T2", "opt", 1)},
	}
	for _, p1 := range places() {
		for _, p2 := range []Place{{"r", false}, {"a", false}, {"b", true}} {
			for ai, ask := range asks {
				for _, who := range []string{"c1", "d1", "i1", "c2"} {
					for up := 0; up < 2; up++ {
						c := &cat.Catalog{Parent: copyTree(chainTree), Fns: map[string]*cat.Fn{}}
						c.Fns["c1"] = ctor(p1, nil, one("T0"))
						c.Fns["c2"] = ctor(p2, []cat.Param{par("T0", "req", 0)}, one("T1"))
						c.Fns["c3"] = ctor(Place{"r", false}, nil, one("T2"), cat.Result{Ks: []string{"T3@g"}, M: "grp"})
						c.Fns["i1"] = inv(par("T0", "req", 0))
						c.Fns["i2"] = inv(par("T1", "req", 0), par("T2", "opt", 1))
						c.Fns["n1"] = inv(append([]cat.Param(nil), ask...)...)
						if who == "d1" {
							c.Fns["d1"] = dec(p1.Scope, []cat.Param{par("T0", "req", 0)}, one("T0"))
						}
						f := c.Fns[who]
						s := "r"
						if f.Kind != "inv" {
							path := c.Path(f.Scope)
							s = path[0]
							if up == 1 {
								s = path[len(path)-1]
							}
						} else if up == 1 {
							continue
						}
						f.Nest = []cat.NestCall{{I: "n1", S: s}}
						c.Note = fmt.Sprintf("reenter c1=%v c2=%v ask=%d who=%s at=%s", p1, p2, ai, who, s)
						out = append(out, finish(c, opts, cb && false))
					}
				}
			}
		}
	}
	return out
}

// DeepCycle is the motif "a cycle that only a deep scope can see, closed from above": on the
// chain r - a - b, c2 (given to a or b) builds T1 from T0 and c3 (given to the root, or exported
// from a) builds T0 from T1; c1 is an unrelated registration that may come at any moment, as may
// the creation of the scopes. Whichever of c2 / c3 comes last must be rejected (or, deferred,
// the Invoke in the deep scope must report the cycle), whenever the scopes were created.
func DeepCycle(opts []cat.Opts, cb bool) []*cat.Catalog {
	var out []*cat.Catalog
	for _, s2 := range []string{"a", "b"} {
		for _, p3 := range []Place{{"r", false}, {"a", true}, {"a", false}} {
			for _, s1 := range []string{"r", "a"} {
				c := &cat.Catalog{Parent: copyTree(chainTree), Fns: map[string]*cat.Fn{}}
				c.Fns["c1"] = ctor(Place{s1, false}, nil, one("T5"))
				c.Fns["c2"] = ctor(Place{s2, false}, []cat.Param{par("T0", "req", 0)}, one("T1"))
				c.Fns["c3"] = ctor(p3, []cat.Param{par("T1", "req", 0)}, one("T0"))
				c.Fns["i1"] = inv(par("T0", "req", 0))
				c.Fns["i2"] = inv(par("T5", "req", 0))
				c.Note = fmt.Sprintf("deepcycle c2=%s c3=%v c1=%s", s2, p3, s1)
				out = append(out, finish(c, opts, cb))
			}
		}
	}
	return out
}

// DeepTree is the visibility motif on a tree four levels deep with siblings at the bottom
// (r - a - b - {c, d}) and a sibling of a (e): one private constructor in each of c, d, e and b,
// one in the root, consumers of every key invoked from every scope; Export on some.
func DeepTree(opts []cat.Opts, cb bool) []*cat.Catalog {
	var out []*cat.Catalog
	tree := map[string]string{"r": "", "a": "r", "b": "a", "c": "b", "d": "b", "e": "r"}
	for v := 0; v < 8; v++ {
		c := &cat.Catalog{Parent: copyTree(tree), Fns: map[string]*cat.Fn{}}
		c.Fns["c1"] = ctor(Place{"c", v&1 != 0}, nil, one("T0"))
		c.Fns["c2"] = ctor(Place{"d", false}, []cat.Param{par("T2", "req", 0)}, one("T1"))
		c.Fns["c3"] = ctor(Place{"r", false}, nil, one("T2"))
		c.Fns["c4"] = ctor(Place{"b", v&2 != 0}, []cat.Param{par("T0", "opt", 1)}, one("T3"))
		c.Fns["c5"] = ctor(Place{"e", v&4 != 0}, nil, one("T2"), cat.Result{Ks: []string{"T4@g"}, M: "grp"})
		c.Fns["i1"] = inv(par("T0", "opt", 1), par("T1", "opt", 1))
		c.Fns["i2"] = inv(par("T3", "req", 0), par("T4@g", "grp", 1))
		c.Fns["i3"] = inv(par("T2", "req", 0))
		c.Order = []string{"c3", "c1", "c2", "c4", "c5"}
		c.Note = fmt.Sprintf("deeptree v=%d", v)
		out = append(out, finish(c, opts, cb))
	}
	return out
}

// GroupCycle is the motif "a cycle that runs through a value group that already has members":
// c1 and c4 feed group T7@g, c2 consumes the group and provides T1, c3 needs T1 and feeds the
// group too - whichever of c2 / c3 is registered last closes the cycle and must be rejected
// without disturbing the members registered before; under As the members are given under two
// interfaces. Invokes of the group and of T1 from every scope.
func GroupCycle(opts []cat.Opts, cb bool) []*cat.Catalog {
	var out []*cat.Catalog
	for vi := 0; vi < 2; vi++ {
		member := func() cat.Result {
			if vi == 1 {
				return cat.Result{Ks: []string{"I0@g", "I1@g"}, M: "grp", CT: "T7"}
			}
			return cat.Result{Ks: []string{"T7@g"}, M: "grp"}
		}
		gk := []string{"T7@g", "I1@g"}[vi]
		for _, p1 := range places() {
			for _, p3 := range places() {
				for _, s2 := range []string{"r", "a", "b"} {
					c := &cat.Catalog{Parent: copyTree(chainTree), Fns: map[string]*cat.Fn{}}
					c.Fns["c1"] = ctor(p1, nil, member())
					c.Fns["c2"] = ctor(Place{s2, false}, []cat.Param{par(gk, "grp", 1)}, one("T1"))
					c.Fns["c3"] = ctor(p3, []cat.Param{par("T1", "req", 0)}, member())
					c.Fns["c4"] = ctor(p3, nil, member())
					c.Fns["i1"] = inv(par(gk, "grp", 1))
					c.Fns["i2"] = inv(par("T1", "req", 0))
					c.Note = fmt.Sprintf("groupcycle v=%d c1=%v c3=%v c2=%s", vi, p1, p3, s2)
					out = append(out, finish(c, opts, cb))
				}
			}
		}
	}
	return out
}

// Digraphs is the cycle motif: n constructors, constructor i provides T<i> and has one
// parameter per out-edge of a digraph on n nodes (self-loops included); every digraph with
// index in [lo, hi) out of 2^(n*n); placements and edge kind chosen from the index and r.
// kind: req | opt | grp (group parameter; the target then provides group T<i>@g instead).
func Digraphs(n int, idx []int, placement func(g, i int) Place, kind string, opts []cat.Opts, tree map[string]string) []*cat.Catalog {
	var out []*cat.Catalog
	for _, g := range idx {
		c := &cat.Catalog{Parent: copyTree(tree), Fns: map[string]*cat.Fn{}}
		for i := 0; i < n; i++ {
			var ps []cat.Param
			for j := 0; j < n; j++ {
				if g&(1<<(i*n+j)) == 0 {
					continue
				}
				switch kind {
				case "grp":
					ps = append(ps, par(fmt.Sprintf("T%d@g", j), "grp", 1))
				case "opt":
					ps = append(ps, par(fmt.Sprintf("T%d", j), "opt", 1))
				default:
					ps = append(ps, par(fmt.Sprintf("T%d", j), "req", 0))
				}
			}
			rs := []cat.Result{one(fmt.Sprintf("T%d", i))}
			if kind == "grp" {
				rs = append(rs, cat.Result{Ks: []string{fmt.Sprintf("T%d@g", i)}, M: "grp"})
			}
			c.Fns[fmt.Sprintf("c%d", i+1)] = ctor(placement(g, i), ps, rs...)
		}
		for i := 0; i < n; i++ {
			c.Fns[fmt.Sprintf("i%d", i+1)] = inv(par(fmt.Sprintf("T%d", i), "req", 0))
		}
		c.Note = fmt.Sprintf("digraph n=%d g=%d kind=%s", n, g, kind)
		out = append(out, finish(c, opts, false))
	}
	return out
}

// Sample picks k catalogs of a family by seed (all of them if k <= 0 or k >= len).
func Sample(cats []*cat.Catalog, seed int64, k int) []*cat.Catalog {
	if k <= 0 || k >= len(cats) {
		return cats
	}
	r := rand.New(rand.NewSource(seed))
	perm := r.Perm(len(cats))
	out := make([]*cat.Catalog, 0, k)
	for _, i := range perm[:k] {
		out = append(out, cats[i])
	}
	return out
}

// Keys is the key-identity motif: three constructors chosen from templates that provide one
// concrete type plainly, named, in a group, or through As under one or two interfaces (in both
// orders), placed in the root or a child (with Export), with consumers of every key. Duplicate
// detection, As sharing and the separation of plain / named / grouped keys are all exercised.
func Keys(opts []cat.Opts, cb bool) []*cat.Catalog {
	as := func(ct string, ks ...string) cat.Result { return cat.Result{Ks: ks, M: "one", CT: ct} }
	templates := []func() []cat.Result{
		func() []cat.Result { return []cat.Result{one("T0")} },
		func() []cat.Result { return []cat.Result{one("T0/n")} },
		func() []cat.Result { return []cat.Result{{Ks: []string{"T0@g"}, M: "grp"}} },
		func() []cat.Result { return []cat.Result{as("T0", "I0")} },
		func() []cat.Result { return []cat.Result{as("T1", "I0", "I1")} },
		func() []cat.Result { return []cat.Result{as("T2", "I1", "I0")} },
		func() []cat.Result { return []cat.Result{as("T1", "I1")} },
		func() []cat.Result { return []cat.Result{as("T0", "I0/n")} },
		func() []cat.Result { return []cat.Result{one("T0"), one("T0/n")} },
		func() []cat.Result { return []cat.Result{one("I1")} },
		func() []cat.Result { return []cat.Result{{Ks: []string{"I0@g", "I1@g"}, M: "grp", CT: "T1"}} },
		func() []cat.Result { return []cat.Result{{Ks: []string{"I1@g"}, M: "grp", CT: "T2"}} },
	}
	pls := []Place{{"r", false}, {"a", false}, {"a", true}}
	var out []*cat.Catalog
	n := len(templates)
	for x := 0; x < n; x++ {
		for y := x; y < n; y++ {
			for z := y; z < n; z++ {
				if x == z && x != 0 && x != 3 {
					continue
				}
				for pi := 0; pi < 27; pi++ {
					if (x*7+y*3+z+pi)%3 != 0 {
						continue // thin out: one third of the placements per triple
					}
					c := &cat.Catalog{Parent: map[string]string{"r": "", "a": "r"}, Fns: map[string]*cat.Fn{}}
					for j, t := range []int{x, y, z} {
						p := pls[(pi/pow3(j))%3]
						f := ctor(p, nil, templates[t]()...)
						if len(f.Rs) == 1 && f.Rs[0].CT == "" && j%2 == 0 {
							f.Enc.ViaOpt = true
						}
						c.Fns[fmt.Sprintf("c%d", j+1)] = f
					}
					c.Fns["i1"] = inv(par("I0", "req", 0), par("I1", "opt", 1))
					c.Fns["i2"] = inv(par("T0", "opt", 1), par("T0/n", "opt", 1), par("T0@g", "grp", 1), par("I0/n", "opt", 1))
					c.Fns["i3"] = inv(par("I1@g", "grp", 1))
					c.Fns["i4"] = inv(par("I0@g", "grp", 1), par("T0@g", "soft", 1))
					c.Note = fmt.Sprintf("keys %d,%d,%d pl=%d", x, y, z, pi)
					out = append(out, finish(c, opts, cb))
				}
			}
		}
	}
	return out
}

func pow3(j int) int {
	p := 1
	for ; j > 0; j-- {
		p *= 3
	}
	return p
}

package fam

import (
	"fmt"
	"math/rand"
	"sort"

	"verif/harness/cat"
	"verif/harness/lib"
)

// LibFamily generates catalogs whose functions are the declared functions of harness/lib
// (distinct code pointers, real names), chosen by chaining backwards from an Invoke target.
func LibFamily(seed int64, n int, opts []cat.Opts, cb bool) []*cat.Catalog {
	r := rand.New(rand.NewSource(seed))
	var names []string
	for k := range lib.Templates {
		names = append(names, k)
	}
	sort.Strings(names)
	providers := map[string][]string{} // key -> library constructors providing it
	var invs []string
	for _, nme := range names {
		t := lib.Templates[nme]
		switch t.Kind {
		case "ctor":
			for _, rs := range t.Rs {
				for _, k := range rs.Ks {
					providers[k] = append(providers[k], nme)
				}
			}
		case "inv":
			invs = append(invs, nme)
		}
	}
	var out []*cat.Catalog
	for i := 0; i < n; i++ {
		c := &cat.Catalog{Parent: map[string]string{"r": "", "a": "r"}, Fns: map[string]*cat.Fn{}, Opts: opts}
		scopes := []string{"r", "a"}
		if r.Intn(2) == 0 {
			c.Parent["b"] = []string{"r", "a"}[r.Intn(2)]
			scopes = append(scopes, "b")
		}
		chosen := map[string]bool{}
		var order []string
		var need []string
		target := invs[r.Intn(len(invs))]
		second := invs[r.Intn(len(invs))]
		for _, iv := range []string{target, second} {
			for _, p := range lib.Templates[iv].Ps {
				need = append(need, p.K)
			}
		}
		for len(need) > 0 && len(order) < 5 {
			k := need[0]
			need = need[1:]
			ps := providers[k]
			if len(ps) == 0 {
				continue
			}
			// sometimes leave a dependency unprovided, sometimes provide it twice
			if r.Intn(8) == 0 {
				continue
			}
			pick := ps[r.Intn(len(ps))]
			if chosen[pick] {
				continue
			}
			chosen[pick] = true
			order = append(order, pick)
			for _, p := range lib.Templates[pick].Ps {
				need = append(need, p.K)
			}
			if len(ps) > 1 && r.Intn(3) == 0 {
				other := ps[r.Intn(len(ps))]
				if !chosen[other] && len(order) < 5 {
					chosen[other] = true
					order = append(order, other)
				}
			}
		}
		d := 1
		add := func(id, nme string) {
			t := lib.Templates[nme]
			f := &cat.Fn{Kind: t.Kind, Ps: append([]cat.Param(nil), t.Ps...), Rs: append([]cat.Result(nil), t.Rs...), Dur: d}
			d *= 2
			f.Enc.Lib = nme
			if t.Kind != "inv" {
				f.Scope = scopes[r.Intn(len(scopes))]
				if t.Kind == "ctor" {
					f.Exp = f.Scope != "r" && r.Intn(4) == 0
				}
				f.Cb = cb && r.Intn(3) > 0
			}
			c.Fns[id] = f
		}
		for j, nme := range order {
			add(fmt.Sprintf("c%d", j+1), nme)
		}
		if r.Intn(3) == 0 {
			add("d1", []string{"D01", "D02"}[r.Intn(2)])
		}
		add("i1", target)
		if second != target {
			add("i2", second)
		}
		c.Note = fmt.Sprintf("lib seed=%d #%d", seed, i)
		out = append(out, c)
	}
	return out
}

// LibGroups is the big-group motif over declared functions (needed where the failure picture
// goes by constructor identity): five to seven feeders of group T4@g registered in a random
// order over one or two scopes, a consumer of the group that also needs the plain T4 (provided
// by a constructor that may fail, or not at all), and Invokes of the group itself, of the
// consumer's output and of group + optional T4. With one fault any feeder may fail - the k-th
// in registration order after k-1 successes.
func LibGroups(seed int64, n int, opts []cat.Opts, cb bool) []*cat.Catalog {
	r := rand.New(rand.NewSource(seed))
	feeders := []string{"L05", "L14", "L15", "L16", "L18", "L11", "L17", "L06"}
	var out []*cat.Catalog
	for i := 0; i < n; i++ {
		c := &cat.Catalog{Parent: map[string]string{"r": "", "a": "r"}, Fns: map[string]*cat.Fn{}, Opts: opts}
		d := 1
		add := func(id, nme, scope string) {
			t := lib.Templates[nme]
			f := &cat.Fn{Kind: t.Kind, Ps: append([]cat.Param(nil), t.Ps...), Rs: append([]cat.Result(nil), t.Rs...), Dur: d, Scope: scope}
			d *= 2
			f.Enc.Lib = nme
			if t.Kind == "inv" {
				f.Scope = ""
			} else {
				f.Cb = cb && r.Intn(3) > 0
			}
			c.Fns[id] = f
		}
		k := 5 + r.Intn(3)
		perm := r.Perm(len(feeders))
		for j := 0; j < k; j++ {
			s := "r"
			if r.Intn(4) == 0 {
				s = "a"
			}
			add(fmt.Sprintf("c%d", j+1), feeders[perm[j]], s)
		}
		if r.Intn(3) != 0 {
			add("c8", "L01", "r") // T0 for L17 / L06 (sometimes missing: a feeder with a gap)
		}
		add("c9", "L19", []string{"r", "a"}[r.Intn(2)])
		switch r.Intn(3) {
		case 0:
			add("ca", "L20", "r")
		case 1:
			add("ca", "L21", "r") // needs T1: missing
		}
		add("i1", "I05", "")
		add("i2", "I02", "")
		add("i3", "I07", "")
		for _, id := range c.FnIDs() {
			if c.Fns[id].Kind != "inv" {
				c.Order = append(c.Order, id)
			}
		}
		r.Shuffle(len(c.Order), func(a, b int) { c.Order[a], c.Order[b] = c.Order[b], c.Order[a] })
		c.Note = fmt.Sprintf("libgroups seed=%d #%d", seed, i)
		out = append(out, c)
	}
	return out
}

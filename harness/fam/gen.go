// Package fam generates families of catalogs: seeded random small programs whose histories
// TLC explores exhaustively, and systematic enumerations for particular properties.
package fam

import (
	"fmt"
	"math/rand"

	"verif/harness/cat"
)

// Features steers the random catalog generator.
type Features struct {
	Scopes    int // number of scopes including the root (1..4)
	Ctors     int
	Decs      int
	Invs      int
	Types     int     // T0..T{Types-1}
	PNamed    float64 // probability that a key is named
	POpt      float64 // optional parameter
	PGroup    float64 // group parameter / result
	PSoft     float64 // group parameter is soft
	PFlat     float64 // group result is flatten
	PExport   float64
	PMulti    float64 // second result
	PAs       float64 // single result given through As
	PCb       float64
	PObj      float64 // parameters gathered into objects
	PNest     float64 // part of a parameter object moved into a nested parameter object
	PReenter  float64 // a function whose body calls Invoke on the container again
	PVal      float64 // a key whose type is a struct passed by value instead of a pointer
	PGroupDec float64 // decorator decorates a group
	MaxParams int
	Opts      []cat.Opts
	FanTree   bool    // siblings instead of a chain
	PInvalid  float64 // probability of adding a function dig must reject (two slots: constructor, decorator)
}

var scopeNames = []string{"r", "a", "b", "c"}

func pick(r *rand.Rand, p float64) bool { return r.Float64() < p }

func (ft Features) key(r *rand.Rand, group bool) string {
	t := fmt.Sprintf("T%d", r.Intn(ft.Types))
	if pick(r, ft.PVal) {
		t = []string{"V0", "V1"}[r.Intn(2)] // a value of a non-pointer kind
	}
	if group {
		g := "g"
		if pick(r, 0.25) {
			g = "h"
		}
		if pick(r, 0.1) {
			g = "g " // a different group: names are exact strings, blanks included
		}
		return t + "@" + g
	}
	if pick(r, ft.PNamed) {
		if pick(r, 0.3) {
			return t + "/q" // a name with a double quote in it (univ.RealName)
		}
		return t + "/n"
	}
	return t
}

func (ft Features) params(r *rand.Rand, max int, avoid map[string]bool) []cat.Param {
	n := r.Intn(max + 1)
	var ps []cat.Param
	obj := 0
	for i := 0; i < n; i++ {
		var p cat.Param
		if pick(r, ft.PGroup) {
			p.K = ft.key(r, true)
			p.M = "grp"
			if pick(r, ft.PSoft) {
				p.M = "soft"
			}
		} else {
			p.K = ft.key(r, false)
			for tries := 0; avoid[p.K] && tries < 5; tries++ {
				p.K = ft.key(r, false)
			}
			p.M = "req"
			if pick(r, ft.POpt) {
				p.M = "opt"
			}
		}
		if pick(r, ft.PObj) || p.M != "req" || len(p.K) > 2 {
			if obj == 0 || pick(r, 0.3) {
				obj++
			}
			p.O = obj
		}
		ps = append(ps, p)
	}
	// keep objects contiguous: positional parameters in between split a run, so renumber runs
	last, run := -1, 0
	for i := range ps {
		if ps[i].O == 0 {
			last = -1
			continue
		}
		if ps[i].O != last {
			run++
			last = ps[i].O
		}
		ps[i].O = run
	}
	nestObjects(r, ps, ft.PNest)
	return ps
}

// nestObjects moves, with probability p per object, a contiguous part of the object's fields
// into a nested parameter object (and part of that one level deeper).
func nestObjects(r *rand.Rand, ps []cat.Param, p float64) {
	for i := 0; i < len(ps); {
		if ps[i].O == 0 {
			i++
			continue
		}
		j := i
		for j < len(ps) && ps[j].O == ps[i].O {
			j++
		}
		if pick(r, p) {
			a := i + r.Intn(j-i)
			b := a + 1 + r.Intn(j-a)
			for x := a; x < b; x++ {
				ps[x].P = []int{1}
			}
			if b-a >= 1 && pick(r, 0.3) {
				c := a + r.Intn(b-a)
				for x := c; x < b; x++ {
					ps[x].P = []int{1, 1}
				}
			}
		}
		i = j
	}
}

// Random generates one valid catalog.
func Random(r *rand.Rand, ft Features) *cat.Catalog {
	c := &cat.Catalog{Parent: map[string]string{"r": ""}, Fns: map[string]*cat.Fn{}, Opts: ft.Opts}
	if len(c.Opts) == 0 {
		c.Opts = []cat.Opts{{Recover: true}}
	}
	for i := 1; i < ft.Scopes; i++ {
		par := scopeNames[i-1]
		if ft.FanTree || (i >= 2 && pick(r, 0.4)) {
			par = scopeNames[r.Intn(i)]
		}
		c.Parent[scopeNames[i]] = par
	}
	scope := func() string { return scopeNames[r.Intn(ft.Scopes)] }
	dur := 1
	nextDur := func() int { d := dur; dur *= 2; return d }
	var provided []string
	var groupKeys []string
	for i := 1; i <= ft.Ctors; i++ {
		f := &cat.Fn{Kind: "ctor", Scope: scope(), Dur: nextDur()}
		f.Exp = f.Scope != "r" && pick(r, ft.PExport)
		f.Cb = pick(r, ft.PCb)
		own := map[string]bool{}
		nres := 1
		if pick(r, ft.PMulti) {
			nres = 2
		}
		for j := 0; j < nres; j++ {
			var res cat.Result
			if pick(r, ft.PGroup) {
				k := ft.key(r, true)
				res = cat.Result{Ks: []string{k}, M: "grp"}
				if pick(r, ft.PFlat) {
					res.M = "flat"
					res.N = r.Intn(3)
					if k[0] == 'T' && pick(r, 0.3) {
						// a flattened slice of interfaces ([]I0): its members are values of a
						// concrete type, or nil interfaces (Enc.NilRes)
						k = "I0" + k[2:]
						res.Ks = []string{k}
					}
				}
				groupKeys = append(groupKeys, k)
			} else {
				k := ft.key(r, false)
				for tries := 0; own[k] && tries < 8; tries++ {
					k = ft.key(r, false)
				}
				if own[k] {
					continue
				}
				own[k] = true
				res = cat.Result{Ks: []string{k}, M: "one"}
				provided = append(provided, k)
			}
			if nres > 1 && pick(r, 0.5) {
				res.O = 1
			}
			f.Rs = append(f.Rs, res)
		}
		if len(f.Rs) == 0 {
			f.Rs = []cat.Result{{Ks: []string{fmt.Sprintf("T%d", r.Intn(ft.Types))}, M: "one"}}
			provided = append(provided, f.Rs[0].Ks[0])
		}
		if len(f.Rs) == 1 && f.Rs[0].M == "one" && f.Rs[0].Ks[0][0] == 'T' && pick(r, ft.PAs) {
			// concrete T -> interface key(s)
			ct := f.Rs[0].Ks[0][:2]
			name := f.Rs[0].Ks[0][2:]
			f.Rs[0].CT = ct
			f.Rs[0].Ks = []string{"I0" + name}
			if pick(r, 0.5) {
				f.Rs[0].Ks = append(f.Rs[0].Ks, "I1"+name)
			}
			provided = append(provided, f.Rs[0].Ks...)
		} else if len(f.Rs) == 1 && f.Rs[0].M == "grp" && f.Rs[0].Ks[0][0] == 'T' && pick(r, ft.PAs) {
			// a group member given under one or two interfaces
			k := f.Rs[0].Ks[0]
			f.Rs[0].CT = k[:2]
			f.Rs[0].Ks = []string{"I0" + k[2:]}
			if pick(r, 0.6) {
				f.Rs[0].Ks = append(f.Rs[0].Ks, "I1"+k[2:])
			}
			groupKeys = append(groupKeys, f.Rs[0].Ks...)
		} else if len(f.Rs) == 1 && pick(r, 0.3) {
			f.Enc.ViaOpt = true
		}
		f.Ps = ft.params(r, ft.MaxParams, own)
		f.Enc.Variadic = pick(r, 0.1)
		f.Enc.ErrFirst = pick(r, 0.2)
		f.Enc.RNest = pick(r, 0.25)
		f.Enc.NilRes = pick(r, 0.12)
		if pick(r, 0.25) {
			f.Enc.Nest = 1 + r.Intn(2)
		}
		c.Fns[fmt.Sprintf("c%d", i)] = f
	}
	anyKey := func(group bool) string {
		if group {
			if len(groupKeys) > 0 && pick(r, 0.8) {
				return groupKeys[r.Intn(len(groupKeys))]
			}
			return ft.key(r, true)
		}
		if len(provided) > 0 && pick(r, 0.85) {
			return provided[r.Intn(len(provided))]
		}
		return ft.key(r, false)
	}
	// bias parameters towards keys that exist
	for _, id := range c.FnIDs() {
		f := c.Fns[id]
		own := map[string]bool{}
		for _, rs := range f.Rs {
			for _, k := range rs.Ks {
				own[k] = true
			}
		}
		for j := range f.Ps {
			if pick(r, 0.7) {
				g := f.Ps[j].M == "grp" || f.Ps[j].M == "soft"
				k := anyKey(g)
				if !own[k] || pick(r, 0.1) {
					f.Ps[j].K = k
				}
			}
		}
	}
	for i := 1; i <= ft.Decs; i++ {
		f := &cat.Fn{Kind: "dec", Scope: scope(), Dur: nextDur()}
		f.Cb = pick(r, ft.PCb)
		if pick(r, ft.PGroupDec) && (len(groupKeys) > 0 || pick(r, 0.3)) {
			k := anyKey(true)
			f.Rs = []cat.Result{{Ks: []string{k}, M: "grp", N: r.Intn(3), O: 1}}
			if pick(r, 0.8) {
				f.Ps = append(f.Ps, cat.Param{K: k, M: "grp", O: 1})
			}
		} else {
			k := anyKey(false)
			f.Rs = []cat.Result{{Ks: []string{k}, M: "one"}}
			if pick(r, 0.8) {
				f.Ps = append(f.Ps, cat.Param{K: k, M: "req"})
			}
			if pick(r, ft.PMulti) {
				k2 := anyKey(false)
				if k2 != k {
					f.Rs = append(f.Rs, cat.Result{Ks: []string{k2}, M: "one"})
				}
			}
		}
		if pick(r, 0.4) {
			extra := ft.params(r, 1, nil)
			for j := range extra {
				g := extra[j].M == "grp" || extra[j].M == "soft"
				extra[j].K = anyKey(g)
				if extra[j].O > 0 {
					extra[j].O = 9
				}
			}
			f.Ps = append(f.Ps, extra...)
		}
		fixObjects(f)
		if pick(r, 0.2) {
			f.Enc.Nest = 1
		}
		f.Enc.ErrFirst = pick(r, 0.2)
		f.Enc.RNest = pick(r, 0.3)
		c.Fns[fmt.Sprintf("d%d", i)] = f
	}
	for i := 1; i <= ft.Invs; i++ {
		f := &cat.Fn{Kind: "inv"}
		f.Ps = ft.params(r, ft.MaxParams, nil)
		if len(f.Ps) == 0 {
			f.Ps = []cat.Param{{K: anyKey(false), M: "req"}}
		}
		for j := range f.Ps {
			g := f.Ps[j].M == "grp" || f.Ps[j].M == "soft"
			if pick(r, 0.9) {
				f.Ps[j].K = anyKey(g)
			}
		}
		fixObjects(f)
		if pick(r, 0.25) {
			f.Enc.Nest = 1 + r.Intn(2)
		}
		f.Enc.Variadic = pick(r, 0.1)
		c.Fns[fmt.Sprintf("i%d", i)] = f
	}
	// re-entrant use: the body of some functions calls Invoke on a scope that exists whenever the
	// function can run (its own scope or an ancestor; the root for invoked functions)
	nn := 0
	for _, id := range c.FnIDs() {
		f := c.Fns[id]
		if f.Inv != "" || !pick(r, ft.PReenter) {
			continue
		}
		calls := 1 + r.Intn(2)
		for x := 0; x < calls; x++ {
			nn++
			g := &cat.Fn{Kind: "inv", Ps: []cat.Param{{K: anyKey(false), M: "req"}}}
			if pick(r, 0.3) {
				g.Ps = append(g.Ps, cat.Param{K: anyKey(false), M: "opt"})
			}
			if pick(r, 0.25) {
				g.Ps = append(g.Ps, cat.Param{K: anyKey(true), M: []string{"grp", "soft"}[r.Intn(2)]})
			}
			fixObjects(g)
			nid := fmt.Sprintf("n%d", nn)
			c.Fns[nid] = g
			s := "r"
			if f.Kind != "inv" {
				path := c.Path(f.Scope)
				s = path[r.Intn(len(path))]
			}
			f.Nest = append(f.Nest, cat.NestCall{I: nid, S: s})
		}
		f.Cb = false
	}
	for _, id := range c.FnIDs() {
		fixObjects(c.Fns[id])
	}
	// functions dig must reject: the specification says verdict invalid, nothing changes
	if pick(r, ft.PInvalid) {
		f := &cat.Fn{Kind: "ctor", Scope: scope(), Inv: InvalidCtor[r.Intn(len(InvalidCtor))], Rs: []cat.Result{{Ks: []string{"T7"}, M: "one"}}}
		f.Exp = f.Scope != "r" && pick(r, 0.3)
		c.Fns["x1"] = f
	}
	if pick(r, ft.PInvalid) {
		f := &cat.Fn{Kind: "dec", Scope: scope(), Inv: InvalidDec[r.Intn(len(InvalidDec))], Rs: []cat.Result{{Ks: []string{"T7"}, M: "one"}}}
		c.Fns["y1"] = f
	}
	return c
}

// InvalidCtor / InvalidDec: classes of rejectable functions (see harness/run/invalid.go).
var InvalidCtor = []string{"nil", "nonfunc", "nilfunc", "ptrin", "outparam", "inresult", "noresult",
	"badopt", "unexported", "grpnotslice", "grpoptional", "namegroup", "backquote", "asnonptr", "asnil",
	"asunimpl", "flattenas", "emptygroup", "softresult", "flattennonslice", "embptrin", "errfield"}
var InvalidDec = []string{"nil", "nonfunc", "nilfunc", "ptrin", "outparam", "inresult",
	"badopt", "unexported", "grpnotslice", "emptygroup", "softresult", "decflatten", "decsingle"}

// fixObjects makes the O numbering well-formed: parameters that need tags sit in an object,
// and equal object numbers are contiguous.
func fixObjects(f *cat.Fn) {
	next := 100
	for i := range f.Ps {
		p := &f.Ps[i]
		needs := p.M != "req" || len(p.K) > 2
		if needs && p.O == 0 {
			next++
			p.O = next
		}
	}
	last, run := -1, 0
	for i := range f.Ps {
		if f.Ps[i].O == 0 {
			last = -1
			continue
		}
		if f.Ps[i].O != last {
			run++
			last = f.Ps[i].O
		}
		f.Ps[i].O = run
	}
}

// RandomFamily generates n catalogs.
func RandomFamily(seed int64, n int, ft Features) []*cat.Catalog {
	r := rand.New(rand.NewSource(seed))
	var out []*cat.Catalog
	for i := 0; i < n; i++ {
		c := Random(r, ft)
		c.Note = fmt.Sprintf("random seed=%d #%d", seed, i)
		out = append(out, c)
	}
	return out
}

// Presets are named feature sets.
var Presets = map[string]Features{
	"small": {Scopes: 2, Ctors: 3, Decs: 1, Invs: 1, Types: 3, PNamed: 0.15, POpt: 0.25, PGroup: 0.2,
		PSoft: 0.3, PFlat: 0.3, PExport: 0.3, PMulti: 0.3, PAs: 0.15, PCb: 0.3, PObj: 0.4, PNest: 0.3, PReenter: 0.12, PVal: 0.12, PGroupDec: 0.3, MaxParams: 2},
}

func init() {
	Presets["tiny"] = Features{Scopes: 2, Ctors: 2, Decs: 1, Invs: 1, Types: 2, PNamed: 0.1, POpt: 0.25, PGroup: 0.25,
		PSoft: 0.3, PFlat: 0.3, PExport: 0.3, PMulti: 0.2, PAs: 0.1, PCb: 0.2, PObj: 0.4, PNest: 0.2, PGroupDec: 0.3, MaxParams: 1}
	Presets["medium"] = Features{Scopes: 3, Ctors: 6, Decs: 2, Invs: 3, Types: 4, PNamed: 0.15, POpt: 0.25, PGroup: 0.25,
		PSoft: 0.3, PFlat: 0.3, PExport: 0.3, PMulti: 0.3, PAs: 0.15, PCb: 0.4, PObj: 0.4, PNest: 0.3, PReenter: 0.1, PVal: 0.12, PGroupDec: 0.3, MaxParams: 3}
	Presets["large"] = Features{Scopes: 4, Ctors: 12, Decs: 4, Invs: 4, Types: 6, PNamed: 0.2, POpt: 0.25, PGroup: 0.25,
		PSoft: 0.3, PFlat: 0.3, PExport: 0.3, PMulti: 0.35, PAs: 0.15, PCb: 0.4, PObj: 0.4, PNest: 0.3, PReenter: 0.1, PVal: 0.12, PGroupDec: 0.3, MaxParams: 3}
}

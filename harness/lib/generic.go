package lib

import (
	"reflect"
	"runtime"

	"verif/harness/univ"
)

// Functions that are not plain declarations: a closure made inside a generic helper and a method
// value of a generic type (the runtime names of both carry an instantiation marker "[...]" in
// the middle), and an ordinary closure. Their templates are those of L01, L21 and L20.

func supply[T any](name string) func() (T, error) {
	return func() (T, error) {
		r := call(name)
		return r[0].Interface().(T), asErr(r[1])
	}
}

type maker[T any] struct{ name string }

func (m maker[T]) Make(p0 *univ.T1) (T, error) {
	r := call(m.name, p0)
	return r[0].Interface().(T), asErr(r[1])
}

func closure(name string) func() (*univ.T4, error) {
	return func() (*univ.T4, error) {
		r := call(name)
		return r[0].Interface().(*univ.T4), asErr(r[1])
	}
}

func init() {
	Funcs["G01"] = supply[*univ.T0]("G01")
	Templates["G01"] = Templates["L01"]
	Funcs["G02"] = maker[*univ.T4]{"G02"}.Make
	Templates["G02"] = Templates["L21"]
	Funcs["G03"] = closure("G03")
	Templates["G03"] = Templates["L20"]
}

// RuntimeName is the name the Go runtime knows library function n by: what identifies it.
func RuntimeName(n string) string {
	return runtime.FuncForPC(reflect.ValueOf(Funcs[n]).Pointer()).Name()
}

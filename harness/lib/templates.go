// Package lib is a library of *declared* Go functions with fixed signatures over the type
// universe. reflect.MakeFunc values all share one code pointer, so checks in which function
// identity matters (constructor IDs of ProvideInfo, failure colouring of Visualize, the Name of
// CallbackInfo) build their catalogs from these functions. lib_gen.go is generated from
// Templates by cmd/genlib.
package lib

import (
	"reflect"

	"verif/harness/cat"
)

// Templates gives, per library function, the flat parameter and result lists of its signature.
var Templates = map[string]cat.Fn{
	"L01": {Kind: "ctor", Rs: []cat.Result{{Ks: []string{"T0"}, M: "one"}}},
	"L02": {Kind: "ctor", Ps: []cat.Param{{K: "T0", M: "req"}}, Rs: []cat.Result{{Ks: []string{"T1"}, M: "one"}}},
	"L03": {Kind: "ctor", Ps: []cat.Param{{K: "T0", M: "opt", O: 1}}, Rs: []cat.Result{{Ks: []string{"T2"}, M: "one"}}},
	"L04": {Kind: "ctor", Ps: []cat.Param{{K: "T1", M: "req"}, {K: "T2", M: "req"}}, Rs: []cat.Result{{Ks: []string{"T3"}, M: "one"}}},
	"L05": {Kind: "ctor", Rs: []cat.Result{{Ks: []string{"T4@g"}, M: "grp", O: 1}}},
	"L06": {Kind: "ctor", Ps: []cat.Param{{K: "T0", M: "req"}}, Rs: []cat.Result{{Ks: []string{"T4@g"}, M: "grp", O: 1}, {Ks: []string{"T5"}, M: "one", O: 1}}},
	"L07": {Kind: "ctor", Ps: []cat.Param{{K: "T4@g", M: "grp", O: 1}}, Rs: []cat.Result{{Ks: []string{"T6"}, M: "one"}}},
	"L08": {Kind: "ctor", Ps: []cat.Param{{K: "T4@g", M: "soft", O: 1}, {K: "T5", M: "req", O: 1}}, Rs: []cat.Result{{Ks: []string{"T7"}, M: "one"}}},
	"L09": {Kind: "ctor", Rs: []cat.Result{{Ks: []string{"T0/n"}, M: "one", O: 1}}},
	"L10": {Kind: "ctor", Ps: []cat.Param{{K: "T0/n", M: "req", O: 1}}, Rs: []cat.Result{{Ks: []string{"T2"}, M: "one"}}},
	"L11": {Kind: "ctor", Rs: []cat.Result{{Ks: []string{"T4@g"}, M: "flat", N: 2, O: 1}}},
	"L12": {Kind: "ctor", Ps: []cat.Param{{K: "T3", M: "req"}}, Rs: []cat.Result{{Ks: []string{"T5"}, M: "one"}}},
	"L13": {Kind: "ctor", Ps: []cat.Param{{K: "T2", M: "req"}}, Rs: []cat.Result{{Ks: []string{"T0"}, M: "one"}}},
	"L14": {Kind: "ctor", Rs: []cat.Result{{Ks: []string{"T4@g"}, M: "grp", O: 1}}},
	"L15": {Kind: "ctor", Rs: []cat.Result{{Ks: []string{"T4@g"}, M: "grp", O: 1}}},
	"L16": {Kind: "ctor", Rs: []cat.Result{{Ks: []string{"T4@g"}, M: "grp", O: 1}}},
	"L17": {Kind: "ctor", Ps: []cat.Param{{K: "T0", M: "req"}}, Rs: []cat.Result{{Ks: []string{"T4@g"}, M: "grp", O: 1}}},
	"L18": {Kind: "ctor", Rs: []cat.Result{{Ks: []string{"T4@g"}, M: "flat", N: 1, O: 1}}},
	"L19": {Kind: "ctor", Ps: []cat.Param{{K: "T4@g", M: "grp", O: 1}, {K: "T4", M: "req", O: 1}}, Rs: []cat.Result{{Ks: []string{"T6"}, M: "one"}}},
	"L20": {Kind: "ctor", Rs: []cat.Result{{Ks: []string{"T4"}, M: "one"}}},
	"L21": {Kind: "ctor", Ps: []cat.Param{{K: "T1", M: "req"}}, Rs: []cat.Result{{Ks: []string{"T4"}, M: "one"}}},
	"L22": {Kind: "ctor", Rs: []cat.Result{{Ks: []string{"T0/q"}, M: "one", O: 1}}},
	"L23": {Kind: "ctor", Ps: []cat.Param{{K: "T0/q", M: "req", O: 1}}, Rs: []cat.Result{{Ks: []string{"T2"}, M: "one"}}},
	"D01": {Kind: "dec", Ps: []cat.Param{{K: "T0", M: "req"}}, Rs: []cat.Result{{Ks: []string{"T0"}, M: "one"}}},
	"D02": {Kind: "dec", Ps: []cat.Param{{K: "T4@g", M: "grp", O: 1}}, Rs: []cat.Result{{Ks: []string{"T4@g"}, M: "grp", N: 1, O: 1}}},
	"I01": {Kind: "inv", Ps: []cat.Param{{K: "T3", M: "req"}}},
	"I02": {Kind: "inv", Ps: []cat.Param{{K: "T6", M: "req"}}},
	"I03": {Kind: "inv", Ps: []cat.Param{{K: "T7", M: "req"}}},
	"I04": {Kind: "inv", Ps: []cat.Param{{K: "T1", M: "req"}}},
	"I05": {Kind: "inv", Ps: []cat.Param{{K: "T4@g", M: "grp", O: 1}}},
	"I07": {Kind: "inv", Ps: []cat.Param{{K: "T4@g", M: "grp", O: 1}, {K: "T4", M: "opt", O: 1}}},
	"I06": {Kind: "inv", Ps: []cat.Param{{K: "T5", M: "req"}, {K: "T2", M: "opt", O: 1}}},
}

// Dispatch is set by the harness: it receives the name of the library function that was
// called and its arguments, and returns its results.
var Dispatch func(name string, args []reflect.Value) []reflect.Value

func call(name string, args ...interface{}) []reflect.Value {
	vs := make([]reflect.Value, len(args))
	for i, a := range args {
		vs[i] = reflect.ValueOf(a)
	}
	return Dispatch(name, vs)
}

func asErr(v reflect.Value) error {
	if !v.IsValid() || v.IsNil() {
		return nil
	}
	return v.Interface().(error)
}

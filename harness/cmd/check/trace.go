package main

import (
	"encoding/json"
	"fmt"
	"math/rand"
	"os"
	"os/exec"
	"path/filepath"
	"runtime/debug"
	"sort"
	"strconv"
	"strings"
	"time"

	"verif/harness/cat"
	"verif/harness/fam"
	"verif/harness/run"
)

// TraceSpecCfg describes one batch of recorded random executions.
type TraceSpecCfg struct {
	Name       string
	Seed       int64
	Containers int
	Features   fam.Features
	Driver     run.DriverOpts
	Opts       []cat.Opts // a container picks one of these at random
	// Variants: for every recorded container also record these derived executions of the same
	// history (perm, scope-early, scope-late, defer, enc, dry) and compare them pairwise with the
	// base execution (metamorphic, real versus real); all of them are validated by TLC as well.
	Variants []string
}

// recordOne records container i of the batch (deterministic in seed and i): the base execution
// followed by the requested variants.
func recordOne(cfg *TraceSpecCfg, i int) []*run.Recorded {
	r := rand.New(rand.NewSource(cfg.Seed*1000003 + int64(i)))
	c := fam.Random(r, cfg.Features)
	c.Note = fmt.Sprintf("trace %s seed=%d #%d", cfg.Name, cfg.Seed, i)
	opt := cfg.Opts[r.Intn(len(cfg.Opts))]
	c.Opts = []cat.Opts{opt}
	base := run.RandomHistory(r, c, opt, cfg.Driver)
	out := []*run.Recorded{base}
	if base.Err != "" {
		return out
	}
	script := base.Script()
	for _, v := range cfg.Variants {
		var rec *run.Recorded
		switch v {
		case "perm":
			rec = run.RunScript(c, opt, run.PermuteBlocks(r, script), v)
		case "scope-early":
			rec = run.RunScript(c, opt, run.MoveScopes(c, script, true), v)
		case "scope-late":
			rec = run.RunScript(c, opt, run.MoveScopes(c, script, false), v)
		case "defer":
			o := opt
			o.Defer = !o.Defer
			rec = run.RunScript(c, o, script, v)
		case "dry":
			o := opt
			o.Dry = true
			rec = run.RunScript(c, o, script, v)
		case "enc":
			rec = run.RunScript(run.Reencode(r, c), opt, script, v)
		default:
			continue
		}
		rec.Cat.Note = c.Note
		out = append(out, rec)
	}
	return out
}

// recordMain is the child process that records containers lo..hi-1 and writes them as JSON.
func recordMain(args []string) int {
	debug.SetMaxStack(64 << 20)
	if len(args) != 4 {
		return 2
	}
	var cfg TraceSpecCfg
	b, err := os.ReadFile(args[0])
	if err != nil || json.Unmarshal(b, &cfg) != nil {
		fmt.Fprintln(os.Stderr, "record: bad config")
		return 2
	}
	lo, _ := strconv.Atoi(args[1])
	hi, _ := strconv.Atoi(args[2])
	var recs []*run.Recorded
	for i := lo; i < hi; i++ {
		recs = append(recs, recordOne(&cfg, i)...)
	}
	out, _ := json.Marshal(recs)
	if err := os.WriteFile(args[3], out, 0o644); err != nil {
		return 2
	}
	return 0
}

// TraceStats is what one trace-validation stage measured.
type TraceStats struct {
	Name       string
	Containers int
	Ops        int
	Execs      int
	TraceLines int
	Predicted  int // operations for which TLC printed a prediction
	TLC        TLCStats
	Divs       map[string]int
	Examples   []traceExample
	StrictBad  int      // operations TLC's in-spec comparison (Strict) rejected
	Disagree   []string // comparator and Strict disagree about an operation (harness problem)
	Crashes    []string
	HarnessErr []string
	Samples    []json.RawMessage
	Wall       float64
	Accepted   int // containers whose whole trace was accepted
	Pairs      int // variant executions compared with their base execution
}

type traceExample struct {
	Div  run.Divergence
	Rec  *run.Recorded
	UpTo int
}

type tracePrediction struct {
	L      int            `json:"l"`
	Entry  *run.Entry     `json:"entry"`
	Snap   *run.Snap      `json:"snap"`
	Viz    *run.VizPic    `json:"viz"`
	VizErr *run.VizErrPic `json:"vizerr"`
	Strict struct {
		V    bool `json:"v"`
		Root bool `json:"root"`
		MK   bool `json:"mk"`
		Log  bool `json:"log"`
	} `json:"strict"`
}

func recordBatch(dir string, cfg *TraceSpecCfg, st *TraceStats, only int) []*run.Recorded {
	self, _ := os.Executable()
	cfgFile := filepath.Join(dir, "tracecfg.json")
	b, _ := json.Marshal(cfg)
	os.WriteFile(cfgFile, b, 0o644)
	var recs []*run.Recorded
	var rec func(lo, hi int)
	rec = func(lo, hi int) {
		out := filepath.Join(dir, fmt.Sprintf("recs-%d-%d.json", lo, hi))
		cmd := exec.Command(self, "record", cfgFile, strconv.Itoa(lo), strconv.Itoa(hi), out)
		var eb limitedBuffer
		cmd.Stderr = &eb
		err := cmd.Run()
		if err == nil {
			var rs []*run.Recorded
			if b, e := os.ReadFile(out); e == nil && json.Unmarshal(b, &rs) == nil {
				recs = append(recs, rs...)
				return
			}
			st.HarnessErr = append(st.HarnessErr, "cannot read recorder output")
			return
		}
		if hi-lo == 1 {
			st.Crashes = append(st.Crashes, fmt.Sprintf("recording container %d of batch %s (seed %d) killed the process: %v\n%s", lo, cfg.Name, cfg.Seed, err, eb.String()))
			return
		}
		mid := (lo + hi) / 2
		rec(lo, mid)
		rec(mid, hi)
	}
	if only >= 0 {
		rec(only, only+1)
	} else {
		rec(0, cfg.Containers)
	}
	return recs
}

// traceStage records random executions of the real code and validates them against the
// specification with TLC.
func traceStage(cfg TraceSpecCfg, timeout time.Duration, maxExamples int) (*TraceStats, error) {
	st := &TraceStats{Name: cfg.Name, Divs: map[string]int{}}
	return traceStageRun(cfg, st, -1, timeout, maxExamples)
}

func traceStageFor(cfg TraceSpecCfg, st *TraceStats, only int) (*TraceStats, error) {
	return traceStageRun(cfg, st, only, 10*time.Minute, 50)
}

func traceStageRun(cfg TraceSpecCfg, st *TraceStats, only int, timeout time.Duration, maxExamples int) (*TraceStats, error) {
	start := time.Now()
	dir, err := newWorkDir("trace-" + cfg.Name)
	if err != nil {
		return nil, err
	}
	defer os.RemoveAll(dir)
	recs := recordBatch(dir, &cfg, st, only)
	return validateRecs(dir, recs, st, start, timeout, maxExamples)
}

// validateRecs validates recorded containers against the specification with TLC (DigTrace) and
// compares every prediction with the recorded observation.
func validateRecs(dir string, recs []*run.Recorded, st *TraceStats, start time.Time, timeout time.Duration, maxExamples int) (*TraceStats, error) {
	st.Containers = len(recs)
	var cats []*cat.Catalog
	for _, r := range recs {
		if r.Err != "" && len(st.HarnessErr) < 10 {
			st.HarnessErr = append(st.HarnessErr, r.Err)
		}
		cats = append(cats, r.Cat)
		st.Ops += len(r.Ops)
		for _, e := range r.Ops {
			for _, ev := range e.Log {
				if ev.T == "exec" {
					st.Execs++
				}
			}
		}
	}
	if len(recs) == 0 {
		return st, fmt.Errorf("no container recorded")
	}
	// metamorphic comparison of every variant with its base execution (real versus real)
	var base *run.Recorded
	for _, r := range recs {
		if r.Variant == "" {
			base = r
			continue
		}
		if base == nil || r.Err != "" {
			continue
		}
		mode := r.Variant
		if strings.HasPrefix(mode, "scope") {
			mode = "scope"
		}
		st.Pairs++
		for _, d := range run.ComparePair(mode, base, r) {
			st.Divs[d.Kind]++
			if st.Divs[d.Kind] <= maxExamples {
				st.Examples = append(st.Examples, traceExample{Div: d, Rec: r, UpTo: len(r.Ops)})
			}
		}
	}
	if _, err := writeCats(dir, cats); err != nil {
		return st, err
	}
	mod, lines, owner := run.TraceModule(recs)
	st.TraceLines = len(lines) - 1
	os.WriteFile(filepath.Join(dir, "DigTraceData.tla"), []byte(mod), 0o644)
	os.WriteFile(filepath.Join(dir, "MCTrace.tla"), []byte("---- MODULE MCTrace ----\nEXTENDS DigTrace\n====\n"), 0o644)
	cfgText := fmt.Sprintf("SPECIFICATION TraceSpec\nCONSTANTS\n  MaxInv = 1000000\n  MaxFaults = 1000000\n  FaultKinds = {\"err\", \"panic\"}\n  FreeOrder = FALSE\nINVARIANTS %s\nPROPERTIES %s\nCHECK_DEADLOCK FALSE\n",
		strings.Join(allInvariants, " "), "T_"+strings.Join(allActionProps, " T_"))
	os.WriteFile(filepath.Join(dir, "MCTrace.cfg"), []byte(cfgText), 0o644)
	preds := map[int]*tracePrediction{}
	tl, terr := runTLC(dir, "MCTrace", 1, timeout, nil, func(s string) {
		var p tracePrediction
		if json.Unmarshal([]byte(s), &p) == nil && p.L > 0 {
			preds[p.L] = &p
		}
	})
	st.TLC = tl
	if terr != nil {
		return st, terr
	}
	// compare
	shapes := map[string]int{}
	bad := map[int]bool{} // containers with a fatal divergence: later lines are not comparable
	okContainer := map[int]bool{}
	for i := range recs {
		okContainer[i] = true
	}
	for l := 1; l < len(lines); l++ {
		obs := lines[l]
		if obs == nil {
			continue
		}
		ci := owner[l]
		if bad[ci] {
			continue
		}
		p := preds[l]
		if p == nil {
			if obs.Crash == "" {
				okContainer[ci] = false
				bad[ci] = true
				if len(st.HarnessErr) < 10 {
					st.HarnessErr = append(st.HarnessErr, fmt.Sprintf("no prediction for trace line %d (%s %s@%s) of container %d", l, obs.Op, obs.F, obs.S, ci))
				}
				continue
			}
			p = &tracePrediction{L: l, Entry: &run.Entry{Op: obs.Op, F: obs.F, S: obs.S}}
			p.Strict.V, p.Strict.Root, p.Strict.MK, p.Strict.Log = true, true, true, true
		}
		st.Predicted++
		want := *p.Entry
		want.Snap = p.Snap
		want.Viz = p.Viz
		want.VizErp = p.VizErr
		opIdx := 0
		for x := l - 1; x >= 1 && owner[x] == ci && lines[x] != nil; x-- {
			opIdx++
		}
		ds := run.CompareEntry(recs[ci].Cat, recs[ci].Opt.Dry, opIdx, &want, obs)
		strictOK := p.Strict.V && p.Strict.Root && p.Strict.MK && p.Strict.Log
		if !strictOK {
			st.StrictBad++
		}
		// cross-check of the two comparisons on the fields both look at
		cmpBad := false
		for _, d := range ds {
			k := d.Kind
			if strings.HasPrefix(k, "verdict.") || k == "root" || k == "mk" || (strings.HasPrefix(k, "args.") && !obs.NoArgs) ||
				k == "exec.extra" || k == "exec.missing" || k == "exec.outcome" || k == "exec.order" || k == "exec.dry" ||
				strings.HasPrefix(k, "cb.count") || strings.HasPrefix(k, "cb.err") || strings.HasPrefix(k, "cb.runtime") ||
				strings.HasPrefix(k, "cb.dry") || k == "exec.inreg" {
				cmpBad = true
			}
		}
		if cmpBad == strictOK && obs.Crash == "" && len(st.Disagree) < 10 {
			st.Disagree = append(st.Disagree, fmt.Sprintf("line %d: comparator says bad=%v, TLC Strict says ok=%v (%+v)", l, cmpBad, strictOK, p.Strict))
		}
		for _, d := range ds {
			st.Divs[d.Kind]++
			okContainer[ci] = false
			sh := d.Kind + "|" + shapeOf(d.Detail)
			shapes[sh]++
			if shapes[sh] <= 3 && len(st.Examples) < 5*maxExamples {
				st.Examples = append(st.Examples, traceExample{Div: d, Rec: recs[ci], UpTo: opIdx})
			}
			if d.Fatal {
				bad[ci] = true
			}
		}
	}
	for _, ok := range okContainer {
		if ok {
			st.Accepted++
		}
	}
	for i := 0; i < len(recs) && len(st.Samples) < 2; i++ {
		if len(recs[i].Ops) >= 6 {
			var ops []string
			for _, e := range recs[i].Ops {
				ops = append(ops, fmt.Sprintf("%s(%s@%s)=%s", e.Op, e.F, e.S, e.V))
			}
			b, _ := json.Marshal(map[string]interface{}{"catalog": recs[i].Cat, "opt": recs[i].Opt, "ops": ops})
			st.Samples = append(st.Samples, b)
		}
	}
	st.Wall = time.Since(start).Seconds()
	return st, nil
}

func (st *TraceStats) summary() string {
	var ks []string
	for k := range st.Divs {
		ks = append(ks, k)
	}
	sort.Strings(ks)
	var b strings.Builder
	fmt.Fprintf(&b, "traces %s: %d containers recorded from the real code (%d ops, %d execs, %d trace lines); TLC %d states, depth %d (%.1fs); %d predictions compared, %d containers fully accepted, Strict rejected %d ops; %d variant executions compared pairwise with their base",
		st.Name, st.Containers, st.Ops, st.Execs, st.TraceLines, st.TLC.Distinct, st.TLC.Depth, st.TLC.Wall, st.Predicted, st.Accepted, st.StrictBad, st.Pairs)
	for _, k := range ks {
		fmt.Fprintf(&b, "\n  divergence %-18s %d", k, st.Divs[k])
	}
	return b.String()
}

package main

import (
	"encoding/json"
	"fmt"
	"os"
	"time"

	"verif/harness/cat"
	"verif/harness/fam"
	"verif/harness/run"
	"verif/harness/univ"
)

// bindingSelfTest demonstrates that the trace binding bites: a batch of executions recorded from
// the real code is validated (must be accepted), then every container is recorded again with
// exactly one observation corrupted - the provenance of one received argument, one verdict, one
// execution dropped, one execution's outcome flipped, one constructor added to the called
// markers, one cached value removed - and the corrupted batch is validated: the specification
// must reject every single one. A failure here is an infrastructure problem (exit 2), never a
// verdict about dig.
func bindingSelfTest(rep *Report) {
	start := time.Now()
	cfg := TraceSpecCfg{Name: "selftest", Seed: rep.Seed*31 + 7, Containers: 48, Features: fam.Presets["medium"],
		Driver: run.DriverOpts{MaxOps: 30, PFault: 0.05, PInvoke: 0.35}, Opts: []cat.Opts{{Recover: true}}}
	dir, err := newWorkDir("selftest")
	if err != nil {
		rep.Infra = append(rep.Infra, "selftest: "+err.Error())
		return
	}
	defer os.RemoveAll(dir)
	st := &TraceStats{Name: "selftest-clean", Divs: map[string]int{}}
	recs := recordBatch(dir, &cfg, st, -1)
	clean, err := validateRecs(dir, recs, st, start, 10*time.Minute, 5)
	if err != nil || len(clean.TLC.Errors) > 0 {
		rep.Infra = append(rep.Infra, fmt.Sprintf("selftest: the uncorrupted batch could not be validated (%v, %v)", err, clean.TLC.Errors))
		return
	}
	if clean.Accepted != clean.Containers {
		// the tree under check differs from the strict machine (the trace stages report that,
		// with the order-tolerant second opinion): the demonstration needs a baseline that
		// agrees and is skipped
		fmt.Printf("binding self-test skipped: %d of %d uncorrupted executions differ from the strict prediction on this tree (%v)\n", clean.Containers-clean.Accepted, clean.Containers, clean.Divs)
		return
	}
	kinds := []string{"arg", "verdict", "drop", "outcome", "called", "cache"}
	var bad []*run.Recorded
	applied := map[string]int{}
	for i, r := range recs {
		b, _ := json.Marshal(r)
		var c run.Recorded
		if json.Unmarshal(b, &c) != nil {
			continue
		}
		for k := 0; k < len(kinds); k++ {
			kind := kinds[(i+k)%len(kinds)]
			if corrupt(&c, kind) {
				applied[kind]++
				c.Cat.Note += " corrupted:" + kind
				bad = append(bad, &c)
				break
			}
		}
	}
	if len(bad) < len(recs)/2 {
		rep.Infra = append(rep.Infra, fmt.Sprintf("selftest: only %d of %d containers could be corrupted", len(bad), len(recs)))
		return
	}
	dir2, err := newWorkDir("selftest-bad")
	if err != nil {
		rep.Infra = append(rep.Infra, "selftest: "+err.Error())
		return
	}
	defer os.RemoveAll(dir2)
	st2 := &TraceStats{Name: "selftest-corrupted", Divs: map[string]int{}}
	res, err := validateRecsNoCross(dir2, bad, st2, start)
	if err != nil {
		rep.Infra = append(rep.Infra, "selftest: "+err.Error())
		return
	}
	if res.Accepted != 0 {
		rep.Infra = append(rep.Infra, fmt.Sprintf("selftest: %d of %d corrupted executions were ACCEPTED by the trace validation (corruptions applied: %v; divergences: %v)", res.Accepted, res.Containers, applied, res.Divs))
	}
	fmt.Printf("binding self-test: %d recorded executions accepted; %d copies with one corrupted observation each (%v): %d rejected, TLC's own comparison (Strict) rejected %d operations\n",
		clean.Containers, len(bad), applied, res.Containers-res.Accepted, res.StrictBad)
	rep.Specials = append(rep.Specials, &SpecialStats{Name: "binding-selftest", Evaluations: len(bad), Distinct: len(bad), States: res.TLC.Distinct, Transitions: res.TLC.Generated,
		Rule:  "every recorded execution is validated unchanged (accepted) and once more with exactly one observation corrupted (argument provenance, verdict, a dropped execution, a flipped outcome, a called marker, a cached value): the corrupted copy must be rejected",
		Extra: map[string]interface{}{"clean_accepted": clean.Accepted, "corrupted": len(bad), "corrupted_rejected": res.Containers - res.Accepted, "by_kind": applied}, Wall: time.Since(start).Seconds()})
}

// validateRecsNoCross validates without treating comparator/Strict disagreement specially.
func validateRecsNoCross(dir string, recs []*run.Recorded, st *TraceStats, start time.Time) (*TraceStats, error) {
	return validateRecs(dir, recs, st, start, 10*time.Minute, 3)
}

// corrupt changes exactly one observation of the recorded container; false if the container
// offers nothing of that kind.
func corrupt(r *run.Recorded, kind string) bool {
	for oi := len(r.Ops) - 1; oi >= 0; oi-- {
		e := r.Ops[oi]
		switch kind {
		case "arg":
			for li := range e.Log {
				ev := &e.Log[li]
				if ev.T != "exec" {
					continue
				}
				for ai := range ev.Args {
					if len(ev.Args[ai]) == 1 && ev.Args[ai][0] != univ.Zero {
						ev.Args[ai][0].N += 1
						return true
					}
				}
			}
		case "verdict":
			if e.Op == "invoke" && e.V == "ok" && len(e.Log) > 0 {
				e.V = "missing"
				e.MK = []string{"T0"}
				return true
			}
		case "drop":
			if e.Op == "invoke" && e.V == "ok" && len(e.Log) >= 2 && e.Log[0].T == "exec" {
				e.Log = e.Log[1:]
				return true
			}
		case "outcome":
			if e.Op == "invoke" && e.V == "ok" && len(e.Log) >= 2 && e.Log[0].T == "exec" && e.Log[0].O == "ok" {
				// recorded as failed although it succeeded: the plan the specification follows
				// then differs from what the code did
				e.Log[0].O = "err"
				return true
			}
		case "called":
			if e.Snap != nil && len(e.Snap.Reg) > len(e.Snap.Called) {
				in := map[string]bool{}
				for _, c := range e.Snap.Called {
					in[c] = true
				}
				for _, c := range e.Snap.Reg {
					if !in[c] {
						e.Snap.Called = append(e.Snap.Called, c)
						return true
					}
				}
			}
		case "cache":
			if e.Snap != nil && len(e.Snap.Vals) > 0 {
				e.Snap.Vals = e.Snap.Vals[1:]
				return true
			}
		}
	}
	return false
}

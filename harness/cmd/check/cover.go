package main

import (
	"encoding/json"
	"fmt"
	"os"
	"path/filepath"
	"regexp"
	"runtime"
	"sort"
	"strings"
	"sync"
	"time"

	"verif/harness/cat"
	"verif/harness/run"
)

// Bounds are the TLC constants of one exhaustive configuration.
type Bounds struct {
	MaxInv     int
	MaxFaults  int
	FaultKinds []string
	// NoView: do not merge states (no VIEW): TLC then walks the tree of all histories, so every
	// history - not one per merged state and operation - is printed and replayed. For tiny
	// catalogs only: defects that live in implementation state the abstraction merges away
	// (graph positions, leftovers of a rollback) may need one particular path.
	NoView bool
}

func (b Bounds) String() string {
	s := fmt.Sprintf("MaxInv=%d MaxFaults=%d FaultKinds=%v", b.MaxInv, b.MaxFaults, b.FaultKinds)
	if b.NoView {
		s += " all-paths(no VIEW)"
	}
	return s
}

var allInvariants = []string{"TypeOK", "C01_Provenance", "C08_Visible", "C08_OwnView", "C08_HomeCommit",
	"C02_NoReentry", "C02_CalledIffOk", "C02_SameInstance", "C07_NoPartial", "C10_Groups",
	"C12_OnePerScopeKey", "C09_OneProvider", "C05_StackBound", "C05_EagerAcyclic", "C05_NoSpuriousCycle",
	"C03_OnlyClosure", "C03_DepsFirst", "C04_MissingIsReal", "C04_OptionalNeverHidesError",
	"C13_RootIsLogged", "C13_InvokeErrIsOwn", "C17_DrySilent", "C20_OneToOne", "CacheConsistent"}

var allActionProps = []string{"C02_NoExecAfterSuccess", "C07_FailureLeavesNoTrace", "C11_NoTrigger",
	"C03_RegistrationsSilent", "C06_NoTrace"}

// CoverStats is what one cover stage measured.
type CoverStats struct {
	Family     string
	Catalogs   int
	Bounds     string
	TLC        TLCStats
	Histories  int // histories replayed on the real code
	Distinct   int // distinct histories (by operations and fault plan)
	Nontrivial int // distinct histories that executed user code or rejected a registration
	Ops        int
	Execs      int
	Divs       map[string]int // divergences by kind
	Examples   []divExample
	Crashes    []crashReport
	HarnessErr []string
	Samples    []json.RawMessage
	Wall       float64
}

type divExample struct {
	Div  run.Divergence
	Line string
	Ci   int
}

func writeCats(dir string, cats []*cat.Catalog) (string, error) {
	if err := os.WriteFile(filepath.Join(dir, "DigCats.tla"), []byte(cat.CatsModule(cats)), 0o644); err != nil {
		return "", err
	}
	b, err := json.Marshal(cats)
	if err != nil {
		return "", err
	}
	f := filepath.Join(dir, "cats.json")
	return f, os.WriteFile(f, b, 0o644)
}

func tlaStrSet(ss []string) string {
	qs := make([]string, len(ss))
	for i, s := range ss {
		qs[i] = fmt.Sprintf("%q", s)
	}
	return "{" + strings.Join(qs, ", ") + "}"
}

func workersN() int {
	n := runtime.NumCPU()
	if n > 16 {
		n = 16
	}
	if n < 2 {
		n = 2
	}
	return n
}

// coverStage model-checks one family exhaustively (all invariants and action properties) and
// replays every printed history on the real code.
func coverStage(name string, cats []*cat.Catalog, b Bounds, timeout time.Duration, maxExamples int, coverage bool) (*CoverStats, error) {
	start := time.Now()
	st := &CoverStats{Family: name, Catalogs: len(cats), Bounds: b.String(), Divs: map[string]int{}}
	dir, err := newWorkDir("cover-" + name)
	if err != nil {
		return nil, err
	}
	defer os.RemoveAll(dir)
	catsFile, err := writeCats(dir, cats)
	if err != nil {
		return nil, err
	}
	mod := "---- MODULE MCGen ----\nEXTENDS DigGen\n====\n"
	cfg := fmt.Sprintf("SPECIFICATION GenSpec\nCONSTANTS\n  MaxInv = %d\n  MaxFaults = %d\n  FaultKinds = %s\n  FreeOrder = FALSE\nINVARIANTS %s\nPROPERTIES %s\n%sCHECK_DEADLOCK FALSE\n",
		b.MaxInv, b.MaxFaults, tlaStrSet(b.FaultKinds), strings.Join(allInvariants, " "), strings.Join(allActionProps, " "), map[bool]string{false: "VIEW GenView\n", true: ""}[b.NoView])
	os.WriteFile(filepath.Join(dir, "MCGen.tla"), []byte(mod), 0o644)
	os.WriteFile(filepath.Join(dir, "MCGen.cfg"), []byte(cfg), 0o644)

	nw := workersN()
	p := newPool(catsFile, nw, false)
	seen := map[uint64]bool{}
	shapes := map[string]int{}
	var wg sync.WaitGroup
	wg.Add(1)
	go func() {
		defer wg.Done()
		for lr := range p.lines {
			res := lr.res
			st.Histories++
			if res.Err != "" {
				if len(st.HarnessErr) < 10 {
					st.HarnessErr = append(st.HarnessErr, res.Err)
				}
				continue
			}
			st.Ops += res.Ops
			st.Execs += res.Execs
			if !seen[res.Hash] {
				seen[res.Hash] = true
				st.Distinct++
				if res.Execs > 0 || res.Rejects > 0 {
					st.Nontrivial++
					if len(st.Samples) < 3 && res.Ops >= 4 && res.Execs >= 2 {
						st.Samples = append(st.Samples, json.RawMessage(lr.line))
					}
				}
			}
			for _, d := range res.Divs {
				st.Divs[d.Kind]++
				// examples are kept per shape of divergence (kind + detail with the names and
				// numbers blanked), a few of each, so that one frequent shape cannot crowd out the
				// others
				sh := d.Kind + "|" + shapeOf(d.Detail)
				shapes[sh]++
				if shapes[sh] <= 3 && len(st.Examples) < 5*maxExamples {
					st.Examples = append(st.Examples, divExample{Div: d, Line: lr.line, Ci: res.Ci})
				}
			}
		}
	}()
	tl, terr := runTLC(dir, "MCGen", nw, timeout, nil, func(s string) { p.submit(s) })
	p.close()
	wg.Wait()
	if coverage && terr == nil {
		// anti-vacuity: per-action coverage, measured on a sample of the family (TLC's coverage
		// statistics are kept per expression, and the data module of a whole family is huge)
		sample := cats
		if len(sample) > 20 {
			sample = sample[:20]
		}
		if cdir, err := newWorkDir("coverage-" + name); err == nil {
			if _, err := writeCats(cdir, sample); err == nil {
				os.WriteFile(filepath.Join(cdir, "MCGen.tla"), []byte(mod), 0o644)
				os.WriteFile(filepath.Join(cdir, "MCGen.cfg"), []byte(cfg), 0o644)
				if ctl, cerr := runTLC(cdir, "MCGen", nw, timeout, []string{"-coverage", "1"}, nil); cerr == nil {
					tl.Coverage = ctl.Coverage
				}
			}
			os.RemoveAll(cdir)
		}
	}
	st.TLC = tl
	st.Crashes = p.crashes
	st.Wall = time.Since(start).Seconds()
	if terr != nil {
		return st, terr
	}
	return st, nil
}

var (
	reProv  = regexp.MustCompile(`[a-z]+[0-9]+#[0-9]+(\.[0-9]+\.[0-9]+)?`)
	reCtx   = regexp.MustCompile(`^[a-z]+\([^)]*\): `)
	reIdent = regexp.MustCompile(`\b[a-zA-Z]+[0-9]+\b`)
	reRep   = regexp.MustCompile(`(v )+v`)
)

// shapeOf blanks the names, values and numbers of a divergence detail.
func shapeOf(detail string) string {
	if i := strings.IndexByte(detail, '\n'); i >= 0 {
		detail = detail[:i]
	}
	s := reCtx.ReplaceAllString(detail, "")
	if i := strings.Index(s, " ("); i >= 0 && strings.HasPrefix(s, "want ") {
		s = s[:i]
	}
	s = reProv.ReplaceAllString(s, "v")
	s = reRep.ReplaceAllString(s, "v")
	s = reIdent.ReplaceAllString(s, "x")
	if len(s) > 120 {
		s = s[:120]
	}
	return s
}

func (st *CoverStats) summary() string {
	var ks []string
	for k := range st.Divs {
		ks = append(ks, k)
	}
	sort.Strings(ks)
	var b strings.Builder
	fmt.Fprintf(&b, "cover %s: %d catalogs, %s; TLC %d generated / %d distinct states, depth %d, %d histories printed (%.1fs); replayed %d (%d distinct, %d non-trivial), %d ops, %d execs",
		st.Family, st.Catalogs, st.Bounds, st.TLC.Generated, st.TLC.Distinct, st.TLC.Depth, st.TLC.Lines, st.TLC.Wall, st.Histories, st.Distinct, st.Nontrivial, st.Ops, st.Execs)
	for _, k := range ks {
		fmt.Fprintf(&b, "\n  divergence %-18s %d", k, st.Divs[k])
	}
	return b.String()
}

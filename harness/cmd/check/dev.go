package main

import (
	"encoding/json"
	"flag"
	"fmt"
	"os"
	"strings"
	"time"

	"verif/harness/cat"
	"verif/harness/fam"
	"verif/harness/run"
)

func devMain(args []string) int {
	if len(args) == 0 {
		return 2
	}
	switch args[0] {
	case "cover":
		fs := flag.NewFlagSet("cover", flag.ExitOnError)
		seed := fs.Int64("seed", 1, "")
		n := fs.Int("n", 5, "")
		feat := fs.String("features", "small", "")
		inv := fs.Int("inv", 2, "")
		faults := fs.Int("faults", 1, "")
		show := fs.Int("show", 5, "")
		noview := fs.Bool("noview", false, "")
		match := fs.String("match", "", "keep only catalogs whose note contains this")
		fs.Parse(args[1:])
		ft, ok := fam.Presets[*feat]
		if !ok && *feat != "lib" && *feat != "chain" && *feat != "shadow" && *feat != "groups" && *feat != "keys" && *feat != "softnest" && *feat != "reenter" && *feat != "libgroups" && *feat != "groupcycle" && *feat != "deeptree" && *feat != "deepcycle" && *feat != "gaps" && *feat != "decpairs" && *feat != "ifacegroups" {
			fmt.Println("unknown preset")
			return 2
		}
		cats := fam.RandomFamily(*seed, *n, ft)
		switch *feat {
		case "chain":
			cats = fam.Sample(fam.Chain([]cat.Opts{{Recover: true}}, false), *seed, *n)
		case "shadow":
			cats = fam.Sample(fam.Shadow([]cat.Opts{{Recover: true}}, false), *seed, *n)
		case "ifacegroups":
			cats = fam.Sample(fam.IfaceGroups([]cat.Opts{{Recover: true}}, false), *seed, *n)
		case "decpairs":
			cats = fam.Sample(fam.DecPairs([]cat.Opts{{Recover: true}}, false), *seed, *n)
		case "gaps":
			cats = fam.Sample(fam.Gaps([]cat.Opts{{Recover: true}}, false), *seed, *n)
		case "deepcycle":
			cats = fam.DeepCycle([]cat.Opts{{Recover: true}, {Recover: true, Defer: true}}, false)
		case "deeptree":
			cats = fam.DeepTree([]cat.Opts{{Recover: true}}, false)
		case "groupcycle":
			cats = fam.Sample(fam.GroupCycle([]cat.Opts{{Recover: true}, {Recover: true, Defer: true}}, false), *seed, *n)
		case "reenter":
			cats = fam.Sample(fam.Reenter([]cat.Opts{{Recover: true}, {Recover: false}}, false), *seed, *n)
		case "softnest":
			cats = fam.Sample(fam.SoftNest([]cat.Opts{{Recover: true}}, false), *seed, *n)
		case "keys":
			cats = fam.Sample(fam.Keys([]cat.Opts{{Recover: true}}, false), *seed, *n)
		case "groups":
			cats = fam.Sample(fam.Groups([]cat.Opts{{Recover: true}}, false), *seed, *n)
		}
		if *match != "" {
			var keep []*cat.Catalog
			for _, c := range cats {
				if strings.Contains(c.Note, *match) {
					keep = append(keep, c)
				}
			}
			cats = keep
		}
		if *feat == "libgroups" {
			cats = fam.LibGroups(*seed, *n, []cat.Opts{{Recover: true}}, false)
		}
		if *feat == "lib" {
			cats = fam.LibFamily(*seed, *n, []cat.Opts{{Recover: true}, {Recover: false}}, true)
		}
		st, err := coverStage(*feat, cats, Bounds{MaxInv: *inv, MaxFaults: *faults, FaultKinds: []string{"err", "panic"}, NoView: *noview}, 10*time.Minute, *show, os.Getenv("VERIF_COVERAGE") != "")
		if st != nil {
			fmt.Println(st.summary())
			if st.TLC.Coverage != nil {
				fmt.Println("coverage:", st.TLC.Coverage)
			}
			for _, e := range st.TLC.Errors {
				fmt.Println("TLC:", e)
			}
			for _, e := range st.HarnessErr {
				fmt.Println("HARNESS:", e)
			}
			for _, c := range st.Crashes {
				fmt.Println("CRASH:", c.Line[:min(len(c.Line), 300)], "\n", c.Output[:min(len(c.Output), 600)])
			}
			for _, ex := range st.Examples {
				fmt.Printf("--- %s op=%d: %s\n", ex.Div.Kind, ex.Div.Op, ex.Div.Detail)
				fmt.Println("    catalog:", cats[ex.Ci-1].JSON())
				ml, _ := run.ParseModelLine(ex.Line)
				for i, h := range ml.Hist {
					b, _ := json.Marshal(h)
					fmt.Printf("    %d %s\n", i, b)
				}
			}
		}
		if err != nil {
			fmt.Println("error:", err)
			return 2
		}
		return 0
	case "trace":
		fs := flag.NewFlagSet("trace", flag.ExitOnError)
		seed := fs.Int64("seed", 1, "")
		n := fs.Int("n", 20, "")
		feat := fs.String("features", "medium", "")
		ops := fs.Int("ops", 30, "")
		pf := fs.Float64("pfault", 0.1, "")
		show := fs.Int("show", 3, "")
		fs.Parse(args[1:])
		cfg := TraceSpecCfg{Name: *feat, Seed: *seed, Containers: *n, Features: fam.Presets[*feat],
			Driver: run.DriverOpts{MaxOps: *ops, PFault: *pf, PInvoke: 0.35},
			Opts:   []cat.Opts{{Recover: true}, {Recover: false}, {Recover: true, Defer: true}, {Dry: true, Recover: true}}}
		st, err := traceStage(cfg, 10*time.Minute, *show)
		if st != nil {
			fmt.Println(st.summary())
			for _, e := range st.TLC.Errors {
				fmt.Println("TLC:", e)
			}
			for _, e := range st.HarnessErr {
				fmt.Println("HARNESS:", e)
			}
			for _, e := range st.Disagree {
				fmt.Println("DISAGREE:", e)
			}
			for _, c := range st.Crashes {
				fmt.Println("CRASH:", c)
			}
			for _, ex := range st.Examples {
				fmt.Printf("--- %s op=%d: %s\n", ex.Div.Kind, ex.Div.Op, ex.Div.Detail)
				fmt.Println("    catalog:", ex.Rec.Cat.JSON(), ex.Rec.Opt)
				for i, h := range ex.Rec.Ops {
					if i > ex.UpTo {
						break
					}
					h2 := *h
					h2.Snap = nil
					b, _ := json.Marshal(h2)
					fmt.Printf("    %d %s\n", i, b)
				}
			}
		}
		if err != nil {
			fmt.Println("error:", err)
			return 2
		}
		return 0
	case "pairspec":
		rep := &Report{Prop: "dev", Tier: "quick", Seed: envSeed(), Start: time.Now(), Notes: map[string]int{}, NoteEx: map[string]string{}}
		mode := "dry"
		if len(args) > 1 {
			mode = args[1]
		}
		cats := fam.RandomFamily(rep.Seed*31+5, 40, fam.Presets["small"])
		for _, c := range cats {
			c.Opts = []cat.Opts{{Recover: true}}
		}
		pairSpecStage(rep, mode, cats, 2)
		for _, e := range rep.Infra {
			fmt.Println("INFRA:", firstLines(e, 30))
		}
		return len(rep.Infra)
	case "selftest":
		rep := &Report{Prop: "dev", Tier: "quick", Seed: envSeed(), Start: time.Now(), Notes: map[string]int{}, NoteEx: map[string]string{}}
		bindingSelfTest(rep)
		for _, e := range rep.Infra {
			fmt.Println("INFRA:", e)
		}
		return len(rep.Infra)
	case "repotrace":
		st, rs, err := repoTraceStage(10*time.Minute, 20)
		if st != nil && rs != nil {
			fmt.Println(repoTraceSummary(st, rs))
			for _, e := range st.TLC.Errors {
				fmt.Println("TLC:", e)
			}
			for _, e := range st.HarnessErr {
				fmt.Println("HARNESS:", e)
			}
			for _, e := range st.Disagree {
				fmt.Println("DISAGREE:", e)
			}
			for _, ex := range st.Examples {
				fmt.Printf("--- %s op=%d: %s\n    %s\n", ex.Div.Kind, ex.Div.Op, ex.Div.Detail, ex.Rec.Cat.Note)
			}
		}
		if err != nil {
			fmt.Println("error:", err)
			return 2
		}
		return 0
	case "sig":
		st, err := sigStage(10*time.Minute, 300)
		if st != nil {
			fmt.Println(st.summary())
			for _, e := range st.TLC.Errors {
				fmt.Println("TLC:", e)
			}
			for _, e := range st.Examples {
				fmt.Println("---", e.Kind, e.Detail)
			}
		}
		if err != nil {
			fmt.Println("error:", err)
			return 2
		}
		return 0
	case "graph":
		rep := &Report{Prop: "C05", Tier: "quick", Seed: envSeed(), Start: time.Now(), Notes: map[string]int{}, NoteEx: map[string]string{}}
		graphStage(rep, properties["C05"])
		for _, f := range rep.Findings {
			fmt.Println("FINDING", f.Kind, f.Detail)
		}
		for _, e := range rep.Infra {
			fmt.Println("INFRA", e)
		}
		return 0
	case "cat":
		fs := flag.NewFlagSet("cat", flag.ExitOnError)
		seed := fs.Int64("seed", 1, "")
		n := fs.Int("n", 3, "")
		feat := fs.String("features", "small", "")
		fs.Parse(args[1:])
		for _, c := range fam.RandomFamily(*seed, *n, fam.Presets[*feat]) {
			fmt.Println(c.JSON())
		}
		return 0
	}
	_ = cat.Opts{}
	_ = os.Args
	return 2
}

func min(a, b int) int {
	if a < b {
		return a
	}
	return b
}

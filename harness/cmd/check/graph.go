package main

import (
	"encoding/json"
	"fmt"
	"math/rand"
	"os"
	"path/filepath"
	"regexp"
	"strconv"
	"strings"
	"time"

	"go.uber.org/dig"
)

type graphRecord struct {
	Adj  [][]int `json:"adj"`
	OK   bool    `json:"ok"`
	Path []int   `json:"path"`
}

func tlaInts(xs []int) string {
	ss := make([]string, len(xs))
	for i, x := range xs {
		ss[i] = strconv.Itoa(x)
	}
	return "<<" + strings.Join(ss, ", ") + ">>"
}

func (r graphRecord) tla() string {
	as := make([]string, len(r.Adj))
	for i, a := range r.Adj {
		as[i] = tlaInts(a)
	}
	ok := "FALSE"
	if r.OK {
		ok = "TRUE"
	}
	return fmt.Sprintf("[adj |-> <<%s>>, ok |-> %s, path |-> %s]", strings.Join(as, ", "), ok, tlaInts(r.Path))
}

func recordGraph(adj [][]int) graphRecord {
	ok, path := dig.VerifIsAcyclic(len(adj), adj)
	if path == nil {
		path = []int{}
	}
	return graphRecord{Adj: adj, OK: ok, Path: path}
}

// graphStage: (1) TLC explores the specification's DFS on every digraph with n nodes and checks
// it against the declarative definitions (and termination); (2) the real IsAcyclic is run
// through the hook on every digraph up to 3 nodes (4 in the thorough tier), on sampled 4-node
// and on random larger digraphs with shuffled, duplicated edge lists, and TLC validates every
// recorded (graph, verdict, path) against the declarative definitions.
func graphStage(rep *Report, def *propDef) {
	start := time.Now()
	dir, err := newWorkDir("graph")
	if err != nil {
		rep.Infra = append(rep.Infra, err.Error())
		return
	}
	defer os.RemoveAll(dir)
	n := 4
	os.WriteFile(filepath.Join(dir, "MCGraph.tla"), []byte("---- MODULE MCGraph ----\nEXTENDS Graph\n====\n"), 0o644)
	os.WriteFile(filepath.Join(dir, "MCGraph.cfg"), []byte(fmt.Sprintf("SPECIFICATION GSpec\nCONSTANT N = %d\nINVARIANTS Correct StackIsPath LeftIsClean\nPROPERTIES Termination\nCHECK_DEADLOCK FALSE\n", n)), 0o644)
	mc, merr := runTLC(dir, "MCGraph", workersN(), 20*time.Minute, nil, nil)
	if merr != nil {
		rep.Infra = append(rep.Infra, "graph MC: "+merr.Error())
	}
	for _, e := range mc.Errors {
		rep.Infra = append(rep.Infra, "graph MC: TLC: "+e)
	}
	// records from the real code
	var recs []graphRecord
	r := rand.New(rand.NewSource(rep.Seed))
	all := func(k int) {
		for g := 0; g < 1<<(k*k); g++ {
			adj := make([][]int, k)
			for i := 0; i < k; i++ {
				adj[i] = []int{}
				for j := 0; j < k; j++ {
					if g&(1<<(i*k+j)) != 0 {
						adj[i] = append(adj[i], j)
					}
				}
			}
			recs = append(recs, recordGraph(adj))
		}
	}
	all(1)
	all(2)
	all(3)
	exhaustive4 := rep.Tier == "thorough"
	if exhaustive4 {
		all(4)
	} else {
		for x := 0; x < 3000; x++ {
			g := r.Intn(1 << 16)
			adj := make([][]int, 4)
			for i := 0; i < 4; i++ {
				adj[i] = []int{}
				for j := 0; j < 4; j++ {
					if g&(1<<(i*4+j)) != 0 {
						adj[i] = append(adj[i], j)
					}
				}
			}
			recs = append(recs, recordGraph(adj))
		}
	}
	nrand := scale(rep.Tier, 3000, 60000)
	for x := 0; x < nrand; x++ {
		k := 5 + r.Intn(4)
		adj := make([][]int, k)
		dens := []float64{0.05, 0.12, 0.2, 0.35}[r.Intn(4)]
		for i := 0; i < k; i++ {
			adj[i] = []int{}
			for j := 0; j < k; j++ {
				if r.Float64() < dens {
					adj[i] = append(adj[i], j)
					if r.Intn(6) == 0 {
						adj[i] = append(adj[i], j) // parallel edge
					}
				}
			}
			r.Shuffle(len(adj[i]), func(a, b int) { adj[i][a], adj[i][b] = adj[i][b], adj[i][a] })
		}
		recs = append(recs, recordGraph(adj))
	}
	cyclic := 0
	var b strings.Builder
	b.WriteString("---- MODULE GraphData ----\nRecords == <<\n")
	for i, rc := range recs {
		if i > 0 {
			b.WriteString(",\n")
		}
		b.WriteString("  " + rc.tla())
		if !rc.OK {
			cyclic++
		}
	}
	b.WriteString("\n>>\n====\n")
	os.WriteFile(filepath.Join(dir, "GraphData.tla"), []byte(b.String()), 0o644)
	os.WriteFile(filepath.Join(dir, "MCRec.tla"), []byte("---- MODULE MCRec ----\nEXTENDS GraphRecords\n====\n"), 0o644)
	os.WriteFile(filepath.Join(dir, "MCRec.cfg"), []byte("SPECIFICATION RSpec\nINVARIANTS RecordOK\nCHECK_DEADLOCK FALSE\n"), 0o644)
	rv, rerr := runTLC(dir, "MCRec", workersN(), 20*time.Minute, []string{"-continue"}, nil)
	if rerr != nil {
		rep.Infra = append(rep.Infra, "graph records: "+rerr.Error())
	}
	// an invariant violation here is a verdict about the real code: find the record
	bad := []int{}
	re := regexp.MustCompile(`^/?\\?\s*i = (\d+)`)
	violated := false
	for _, e := range rv.Errors {
		if strings.Contains(e, "RecordOK is violated") {
			violated = true
		}
		if m := re.FindStringSubmatch(strings.TrimSpace(e)); m != nil {
			x, _ := strconv.Atoi(m[1])
			bad = append(bad, x)
		}
	}
	if !violated {
		for _, e := range rv.Errors {
			rep.Infra = append(rep.Infra, "graph records: TLC: "+e)
		}
	}
	if violated && len(bad) == 0 {
		rep.Infra = append(rep.Infra, "graph records: RecordOK violated but the record index was not found in TLC's output")
	}
	seen := map[int]bool{}
	for _, x := range bad {
		if x < 1 || x > len(recs) || seen[x] {
			continue
		}
		seen[x] = true
		rb, _ := json.Marshal(recs[x-1])
		detail := fmt.Sprintf("internal/graph.IsAcyclic disagrees with the declarative definition on %s", rb)
		if def.claims("graph.hook", detail) {
			rep.Findings = append(rep.Findings, Finding{Property: rep.Prop, Kind: "graph.hook", Detail: detail, Stage: "graph", Source: "special", Special: rb})
		} else {
			rep.note("graph.hook", detail)
		}
	}
	var samples []json.RawMessage
	for _, i := range []int{len(recs) - 1, len(recs) - 2} {
		sb, _ := json.Marshal(recs[i])
		samples = append(samples, sb)
	}
	st := &SpecialStats{Name: "graph", Evaluations: len(recs), Distinct: len(recs), States: mc.Distinct + rv.Distinct, Transitions: mc.Generated + rv.Generated,
		Traces:  len(recs) - len(seen),
		Rule:    "(1) the DFS of Graph.tla model-checked on every digraph with 4 nodes (65536) against HasCycle / IsClosedPath, with termination; (2) the real internal/graph.IsAcyclic run through the hook on all digraphs with <= 3 nodes, all or sampled 4-node digraphs and random 5-8 node digraphs with shuffled and duplicated edges; every record validated by TLC against the declarative definitions (distinct = records)",
		Samples: samples, Wall: time.Since(start).Seconds(),
		Extra: map[string]interface{}{"mc_nodes": n, "mc_states": mc.Distinct, "records": len(recs), "cyclic_records": cyclic, "exhaustive_up_to_nodes": map[bool]int{true: 4, false: 3}[exhaustive4]}}
	rep.Specials = append(rep.Specials, st)
	fmt.Printf("graph: TLC checked the DFS specification on all %d-node digraphs (%d states, %.1fs); %d records of the real IsAcyclic (%d cyclic) validated against the declarative definitions (%.1fs), %d disagreements\n",
		n, mc.Distinct, mc.Wall, len(recs), cyclic, rv.Wall, len(seen))
}

// replayGraph re-runs one recorded digraph on the real code and re-validates it in Go.
func replayGraph(b json.RawMessage) int {
	var rc graphRecord
	if json.Unmarshal(b, &rc) != nil {
		return 2
	}
	got := recordGraph(rc.Adj)
	// declarative check in Go (transitive closure)
	n := len(rc.Adj)
	reach := make([][]bool, n)
	for i := range reach {
		reach[i] = make([]bool, n)
		for _, j := range rc.Adj[i] {
			reach[i][j] = true
		}
	}
	for k := 0; k < n; k++ {
		for i := 0; i < n; i++ {
			for j := 0; j < n; j++ {
				if reach[i][k] && reach[k][j] {
					reach[i][j] = true
				}
			}
		}
	}
	cyc := false
	for i := 0; i < n; i++ {
		if reach[i][i] {
			cyc = true
		}
	}
	okPath := true
	if !got.OK {
		p := got.Path
		if len(p) < 2 || p[0] != p[len(p)-1] {
			okPath = false
		}
		for i := 0; okPath && i+1 < len(p); i++ {
			found := false
			if p[i] < 0 || p[i] >= n {
				okPath = false
				break
			}
			for _, j := range rc.Adj[p[i]] {
				if j == p[i+1] {
					found = true
				}
			}
			if !found {
				okPath = false
			}
		}
	}
	fmt.Printf("graph %v: IsAcyclic says ok=%v path=%v; declaratively cyclic=%v, path valid=%v\n", rc.Adj, got.OK, got.Path, cyc, okPath)
	if got.OK == cyc || !okPath {
		return 1
	}
	return 0
}

package main

import (
	"bufio"
	"encoding/json"
	"fmt"
	"io"
	"os"
	"os/exec"
	"runtime/debug"
	"sync"

	"verif/harness/cat"
	"verif/harness/run"
)

// workerMain is the child process: it reads model lines from stdin, replays each on the real
// code, and writes one result line per input line.
func workerMain(catsFile string, fullSnap bool) int {
	debug.SetMaxStack(64 << 20)
	cats, err := loadCats(catsFile)
	if err != nil {
		fmt.Fprintln(os.Stderr, "worker:", err)
		return 2
	}
	in := bufio.NewReaderSize(os.Stdin, 1<<20)
	out := bufio.NewWriterSize(os.Stdout, 1<<20)
	defer out.Flush()
	enc := json.NewEncoder(out)
	for {
		line, err := in.ReadString('\n')
		if len(line) > 1 {
			ml, perr := run.ParseModelLine(line)
			var res *run.ReplayResult
			if perr != nil {
				res = &run.ReplayResult{Err: "parse: " + perr.Error()}
			} else if ml.Ci < 1 || ml.Ci > len(cats) {
				res = &run.ReplayResult{Err: fmt.Sprintf("catalog index %d out of range", ml.Ci)}
			} else if os.Getenv("VERIF_NOREPLAY") != "" {
				res = &run.ReplayResult{Ci: ml.Ci, Ops: len(ml.Hist)}
			} else {
				res = run.Replay(cats[ml.Ci-1], ml, run.ReplayOpts{FullSnap: fullSnap})
			}
			enc.Encode(res)
			out.Flush()
		}
		if err != nil {
			return 0
		}
	}
}

func loadCats(file string) ([]*cat.Catalog, error) {
	b, err := os.ReadFile(file)
	if err != nil {
		return nil, err
	}
	var cats []*cat.Catalog
	if err := json.Unmarshal(b, &cats); err != nil {
		return nil, err
	}
	return cats, nil
}

type crashReport struct {
	Line   string
	Output string
}

// pool distributes model lines over child processes.
type pool struct {
	catsFile string
	n        int
	in       chan string
	results  chan *run.ReplayResult
	lines    chan lineResult
	crashes  []crashReport
	mu       sync.Mutex
	wg       sync.WaitGroup
	fullSnap bool
}

type lineResult struct {
	line string
	res  *run.ReplayResult
}

func newPool(catsFile string, n int, fullSnap bool) *pool {
	p := &pool{catsFile: catsFile, n: n, in: make(chan string, 4096), lines: make(chan lineResult, 4096), fullSnap: fullSnap}
	for i := 0; i < n; i++ {
		p.wg.Add(1)
		go p.runChild()
	}
	return p
}

// runChild owns one child process at a time; when the child dies while a line is in flight
// the line is recorded as a crash and a new child is started.
func (p *pool) runChild() {
	defer p.wg.Done()
	self, _ := os.Executable()
	for {
		args := []string{"worker", "--cats", p.catsFile}
		if p.fullSnap {
			args = append(args, "--fullsnap")
		}
		cmd := exec.Command(self, args...)
		stdin, _ := cmd.StdinPipe()
		stdout, _ := cmd.StdoutPipe()
		var errbuf limitedBuffer
		cmd.Stderr = &errbuf
		if err := cmd.Start(); err != nil {
			fmt.Fprintln(os.Stderr, "pool: cannot start worker:", err)
			return
		}
		rd := bufio.NewReaderSize(stdout, 1<<20)
		died := false
		for line := range p.in {
			if _, err := io.WriteString(stdin, line+"\n"); err != nil {
				died = true
			}
			var res run.ReplayResult
			if !died {
				b, err := rd.ReadBytes('\n')
				if err != nil || json.Unmarshal(b, &res) != nil {
					died = true
				}
			}
			if died {
				cmd.Wait()
				p.mu.Lock()
				p.crashes = append(p.crashes, crashReport{Line: line, Output: errbuf.String()})
				p.mu.Unlock()
				break
			}
			p.lines <- lineResult{line, &res}
		}
		if !died {
			stdin.Close()
			cmd.Wait()
			return
		}
	}
}

func (p *pool) submit(line string) { p.in <- line }

// close waits for all children and closes the result channel.
func (p *pool) close() {
	close(p.in)
	p.wg.Wait()
	close(p.lines)
}

type limitedBuffer struct {
	b []byte
}

func (l *limitedBuffer) Write(p []byte) (int, error) {
	if len(l.b) < 8192 {
		n := 8192 - len(l.b)
		if n > len(p) {
			n = len(p)
		}
		l.b = append(l.b, p[:n]...)
	}
	return len(p), nil
}

func (l *limitedBuffer) String() string { return string(l.b) }

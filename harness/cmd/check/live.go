package main

import (
	"encoding/json"
	"fmt"
	"os"
	"path/filepath"
	"time"

	"verif/harness/cat"
)

// livenessStage checks the temporal property C05_Terminates (every call that begins ends) under
// weak fairness of the resolver steps, on a family of catalogs; no VIEW and no state constraint,
// so that non-progress cycles cannot be hidden. The bounds live inside the action guards.
func livenessStage(rep *Report, name string, cats []*cat.Catalog, b Bounds) {
	start := time.Now()
	dir, err := newWorkDir("live-" + name)
	if err != nil {
		rep.Infra = append(rep.Infra, err.Error())
		return
	}
	defer os.RemoveAll(dir)
	if _, err := writeCats(dir, cats); err != nil {
		rep.Infra = append(rep.Infra, err.Error())
		return
	}
	os.WriteFile(filepath.Join(dir, "MCLive.tla"), []byte("---- MODULE MCLive ----\nEXTENDS Dig\n====\n"), 0o644)
	cfg := fmt.Sprintf("SPECIFICATION FairSpec\nCONSTANTS\n  MaxInv = %d\n  MaxFaults = %d\n  FaultKinds = %s\n  FreeOrder = FALSE\nINVARIANTS C05_StackBound C02_NoReentry\nPROPERTIES C05_Terminates\nCHECK_DEADLOCK FALSE\n",
		b.MaxInv, b.MaxFaults, tlaStrSet(b.FaultKinds))
	os.WriteFile(filepath.Join(dir, "MCLive.cfg"), []byte(cfg), 0o644)
	st, terr := runTLC(dir, "MCLive", workersN(), 30*time.Minute, nil, nil)
	if terr != nil {
		rep.Infra = append(rep.Infra, "liveness: "+terr.Error())
	}
	for _, e := range st.Errors {
		rep.Infra = append(rep.Infra, "liveness: TLC: "+e)
	}
	sample, _ := json.Marshal(map[string]interface{}{"catalog": cats[0], "property": "cur.active ~> ~cur.active under WF(Descend \\/ Exec \\/ Unwind)"})
	rep.Specials = append(rep.Specials, &SpecialStats{Name: "liveness-" + name, Evaluations: len(cats), Distinct: len(cats), States: st.Distinct, Transitions: st.Generated,
		Rule:    "temporal property C05_Terminates checked by TLC under weak fairness of the resolver steps for every catalog of the family, all interleavings, faults enabled; no VIEW, no CONSTRAINT",
		Samples: []json.RawMessage{sample}, Wall: time.Since(start).Seconds()})
	fmt.Printf("liveness %s: %d catalogs, %s; TLC %d generated / %d distinct states (%.1fs): every call terminates\n", name, len(cats), b, st.Generated, st.Distinct, st.Wall)
}

package main

import (
	"crypto/sha1"
	"encoding/json"
	"fmt"
	"os"
	"os/exec"
	"path/filepath"
	"sort"
	"strconv"
	"strings"
	"time"

	"verif/harness/cat"
	"verif/harness/fam"
	"verif/harness/run"
)

// Finding is a divergence attributed to the property being checked.
type Finding struct {
	Property string          `json:"property"`
	Kind     string          `json:"kind"`
	Detail   string          `json:"detail"`
	Stage    string          `json:"stage"`
	Source   string          `json:"source"` // cover | trace | special
	Catalog  *cat.Catalog    `json:"catalog,omitempty"`
	Line     json.RawMessage `json:"line,omitempty"`  // model history (cover)
	Trace    *TraceSpecCfg   `json:"trace,omitempty"` // recorded batch (trace)
	Index    int             `json:"index,omitempty"` // container within the batch
	Special  json.RawMessage `json:"special,omitempty"`
}

// Report accumulates what one run of a property check did.
type Report struct {
	Prop      string
	Tier      string
	Seed      int64
	Start     time.Time
	Covers    []*CoverStats
	Traces    []*TraceStats
	Specials  []*SpecialStats
	Findings  []Finding
	Notes     map[string]int // divergences outside the projection of the property
	Infra     []string       // infrastructure problems (exit 2)
	NoteEx    map[string]string
	RepoStats *run.RepoTraceStats
	confirmed map[string]confirmation // finding key -> outcome of its replay in a fresh process
}

type confirmation struct {
	code int
	path string
	out  string
}

// confirm replays a finding in a fresh process (once) and says how that ended: exit code 1 means
// the divergence showed again.
func (rep *Report) confirm(f Finding) confirmation {
	key := f.Kind + "|" + f.Detail
	if c, ok := rep.confirmed[key]; ok {
		return c
	}
	if rep.confirmed == nil {
		rep.confirmed = map[string]confirmation{}
	}
	root := verifRoot()
	os.MkdirAll(outDir(root, "replays"), 0o755)
	self, _ := os.Executable()
	b, _ := json.MarshalIndent(f, "", " ")
	sum := sha1.Sum(b)
	path := filepath.Join(outDir(root, "replays"), fmt.Sprintf("%s-%x.json", rep.Prop, sum[:6]))
	os.WriteFile(path, b, 0o644)
	out, err := exec.Command(self, "replay", path).CombinedOutput()
	code := 0
	if ee, ok := err.(*exec.ExitError); ok {
		code = ee.ExitCode()
	} else if err != nil {
		code = 2
	}
	if code != 1 {
		os.Remove(path)
	}
	c := confirmation{code, path, string(out)}
	rep.confirmed[key] = c
	return c
}

// anyConfirmed: some finding so far (known findings aside) reproduces in a fresh process.
func (rep *Report) anyConfirmed() bool {
	known := loadKnown()
	tried := 0
	for _, f := range rep.Findings {
		if known.match(rep.Prop, f) != "" {
			continue
		}
		if _, done := rep.confirmed[f.Kind+"|"+f.Detail]; !done {
			if tried >= 8 {
				continue
			}
			tried++
		}
		if rep.confirm(f).code == 1 {
			return true
		}
	}
	return false
}

// SpecialStats is what a property-specific stage measured.
type SpecialStats struct {
	Name        string                 `json:"name"`
	Evaluations int                    `json:"evaluations"`
	Distinct    int                    `json:"distinct_nontrivial"`
	States      int                    `json:"states"`
	Transitions int                    `json:"transitions"`
	Traces      int                    `json:"traces_validated"`
	Rule        string                 `json:"rule"`
	Samples     []json.RawMessage      `json:"samples"`
	Extra       map[string]interface{} `json:"extra,omitempty"`
	Wall        float64                `json:"wall_s"`
}

// outDir is where evidence / replay files go: under /verif, except when a development aid
// (tools/try_seed.sh, which checks a scratch copy of the repository) redirects them so that the
// committed evidence is only ever written by runs against /repo itself.
func outDir(root, name string) string {
	if d := os.Getenv("VERIF_OUT_DIR"); d != "" {
		return filepath.Join(d, name)
	}
	return filepath.Join(root, name)
}

func envSeed() int64 {
	if s := os.Getenv("VERIF_SEED"); s != "" {
		if v, err := strconv.ParseInt(s, 10, 64); err == nil {
			return v
		}
	}
	return 1
}

func propMain(args []string) int {
	if len(args) < 1 {
		usage()
		return 2
	}
	id := args[0]
	tier := "quick"
	if len(args) > 1 {
		tier = args[1]
	}
	if t := os.Getenv("VERIF_TIER"); t != "" && len(args) < 2 {
		tier = t
	}
	def, ok := properties[id]
	if !ok {
		fmt.Fprintln(os.Stderr, "unknown property", id)
		return 2
	}
	rep := &Report{Prop: id, Tier: tier, Seed: envSeed(), Start: time.Now(), Notes: map[string]int{}, NoteEx: map[string]string{}}
	def.run(rep, def)
	return rep.finish(def)
}

// take attributes the divergences of a cover stage.
func (rep *Report) takeCover(def *propDef, st *CoverStats, cats []*cat.Catalog, err error) {
	if st == nil {
		rep.Infra = append(rep.Infra, fmt.Sprintf("cover stage failed: %v", err))
		return
	}
	rep.Covers = append(rep.Covers, st)
	fmt.Println(st.summary())
	if err != nil {
		rep.Infra = append(rep.Infra, fmt.Sprintf("cover %s: %v", st.Family, err))
	}
	for _, e := range st.TLC.Errors {
		rep.Infra = append(rep.Infra, fmt.Sprintf("cover %s: TLC: %s", st.Family, e))
	}
	for _, e := range st.HarnessErr {
		rep.Infra = append(rep.Infra, fmt.Sprintf("cover %s: harness: %s", st.Family, e))
	}
	if st.TLC.Coverage != nil {
		// anti-vacuity: every action of the machine must have been taken in this configuration
		acts := []string{"GCreateScope", "GProvide", "GDecorate", "GBeginInvoke", "GDescend", "GUnwind", "GExec"}
		if hasNest(cats) {
			acts = append(acts, "GEnter", "GNestBegin", "GNestReturn")
		}
		for _, a := range acts {
			if st.TLC.Coverage[a] == 0 && !(a == "GDecorate" && !hasKind(cats, "dec")) && !(a == "GCreateScope" && !hasChildScope(cats)) {
				rep.Infra = append(rep.Infra, fmt.Sprintf("cover %s: vacuous: action %s was never taken (coverage %v)", st.Family, a, st.TLC.Coverage))
			}
		}
	}
	if st.TLC.Lines != st.Histories+len(st.Crashes) {
		rep.Infra = append(rep.Infra, fmt.Sprintf("cover %s: %d histories printed but %d replayed", st.Family, st.TLC.Lines, st.Histories))
	}
	for _, c := range st.Crashes {
		// the worker process died while replaying this history
		ml, _ := run.ParseModelLine(c.Line)
		f := Finding{Property: rep.Prop, Kind: "processcrash", Detail: "the process died while replaying this history: " + firstLines(c.Output, 6), Stage: st.Family, Source: "cover", Line: json.RawMessage(c.Line)}
		if ml != nil && ml.Ci >= 1 && ml.Ci <= len(cats) {
			f.Catalog = cats[ml.Ci-1]
		}
		if def.claims("processcrash", f.Detail) {
			rep.Findings = append(rep.Findings, f)
		} else {
			rep.note("processcrash", f.Detail)
		}
	}
	vetted := map[string]bool{}
	perKind := map[string]int{}
	for _, ex := range st.Examples {
		if def.claims(ex.Div.Kind, ex.Div.Detail) {
			// up to 24 examples per kind are kept so that divergences an order-tolerant second
			// opinion explains cannot crowd out one it does not; three findings per kind suffice
			if perKind[ex.Div.Kind] >= 3 {
				continue
			}
			if orderExplains(ex.Div.Kind) {
				// the strict prediction failed: is the observed execution still one the
				// specification allows when independent parameters are built in another order?
				ok, done := vetted[ex.Line]
				if !done && len(vetted) >= 40 {
					continue // second opinions are bounded per stage; unvetted examples decide nothing
				}
				if !done {
					if ml, err := run.ParseModelLine(ex.Line); err == nil {
						res := run.Replay(cats[ex.Ci-1], ml, run.ReplayOpts{Keep: true})
						ok, _ = vetFreeOrder(def, cats[ex.Ci-1], ml.Opt, res.Observed)
					}
					vetted[ex.Line] = ok
				}
				if ok {
					rep.note("order-tolerated."+ex.Div.Kind, ex.Div.Detail)
					continue
				}
			}
			perKind[ex.Div.Kind]++
			rep.Findings = append(rep.Findings, Finding{Property: rep.Prop, Kind: ex.Div.Kind, Detail: ex.Div.Detail, Stage: st.Family,
				Source: "cover", Catalog: cats[ex.Ci-1], Line: json.RawMessage(ex.Line)})
		} else {
			rep.note(ex.Div.Kind, ex.Div.Detail)
		}
	}
}

func (rep *Report) note(kind, detail string) {
	rep.Notes[kind]++
	if _, ok := rep.NoteEx[kind]; !ok {
		rep.NoteEx[kind] = detail
	}
}

func (rep *Report) takeTrace(def *propDef, st *TraceStats, cfg TraceSpecCfg, err error) {
	if st == nil {
		rep.Infra = append(rep.Infra, fmt.Sprintf("trace stage failed: %v", err))
		return
	}
	rep.Traces = append(rep.Traces, st)
	fmt.Println(st.summary())
	if err != nil {
		rep.Infra = append(rep.Infra, fmt.Sprintf("trace %s: %v", st.Name, err))
	}
	for _, e := range st.TLC.Errors {
		rep.Infra = append(rep.Infra, fmt.Sprintf("trace %s: TLC: %s", st.Name, e))
	}
	for _, e := range st.HarnessErr {
		rep.Infra = append(rep.Infra, fmt.Sprintf("trace %s: harness: %s", st.Name, e))
	}
	for _, e := range st.Disagree {
		rep.Infra = append(rep.Infra, fmt.Sprintf("trace %s: %s", st.Name, e))
	}
	for _, c := range st.Crashes {
		f := Finding{Property: rep.Prop, Kind: "processcrash", Detail: c, Stage: st.Name, Source: "trace", Trace: &cfg}
		if def.claims("processcrash", c) {
			rep.Findings = append(rep.Findings, f)
		} else {
			rep.note("processcrash", c)
		}
	}
	perKind := map[string]int{}
	for _, ex := range st.Examples {
		if def.claims(ex.Div.Kind, ex.Div.Detail) {
			if perKind[ex.Div.Kind] >= 3 {
				continue
			}
			if orderExplains(ex.Div.Kind) && ex.Rec != nil {
				if ok, _ := vetFreeOrder(def, ex.Rec.Cat, ex.Rec.Opt, ex.Rec.Ops); ok {
					rep.note("order-tolerated."+ex.Div.Kind, ex.Div.Detail)
					continue
				}
			}
			perKind[ex.Div.Kind]++
			idx := 0
			fmt.Sscanf(ex.Rec.Cat.Note[strings.LastIndex(ex.Rec.Cat.Note, "#")+1:], "%d", &idx)
			c := cfg
			rep.Findings = append(rep.Findings, Finding{Property: rep.Prop, Kind: ex.Div.Kind, Detail: ex.Div.Detail, Stage: st.Name,
				Source: "trace", Catalog: ex.Rec.Cat, Trace: &c, Index: idx})
		} else {
			rep.note(ex.Div.Kind, ex.Div.Detail)
		}
	}
}

// takeSig attributes the divergences of the front-end stage.
func (rep *Report) takeSig(def *propDef, st *SigStats, err error) {
	if st == nil {
		rep.Infra = append(rep.Infra, fmt.Sprintf("sig stage failed: %v", err))
		return
	}
	fmt.Println(st.summary())
	if err != nil {
		rep.Infra = append(rep.Infra, fmt.Sprintf("sig: %v", err))
	}
	for _, e := range st.TLC.Errors {
		rep.Infra = append(rep.Infra, "sig: TLC: "+e)
	}
	if st.Cases != st.TLC.Lines || st.Cases == 0 {
		rep.Infra = append(rep.Infra, fmt.Sprintf("sig: %d cases printed but %d tested", st.TLC.Lines, st.Cases))
	}
	rep.Specials = append(rep.Specials, &SpecialStats{Name: "sig", Evaluations: st.Tests, Distinct: st.Cases, States: st.TLC.Distinct,
		Transitions: st.TLC.Generated, Traces: st.Cases,
		Rule:    "every signature descriptor of the bounded grammar of spec/Sig.tla (one TLC state each; internal theorems as invariants) is built as a Go value with reflect and passed to the real Provide, Decorate and Invoke in three container states, each followed by a fixed continuation of valid operations (consumer of the registered keys invoked twice, valid Provide / Invoke, scope created afterwards, Visualize) that must not panic or fail; distinct = enumerated descriptors",
		Samples: st.Samples, Wall: st.Wall, Extra: map[string]interface{}{"accepted_by_provide": st.Accepted, "divergences": st.Divs}})
	for _, ex := range st.Examples {
		if def.claims(ex.Kind, ex.Detail) {
			b, _ := json.Marshal(ex)
			rep.Findings = append(rep.Findings, Finding{Property: rep.Prop, Kind: ex.Kind, Detail: ex.Detail, Stage: "sig", Source: "special", Special: b})
		} else {
			rep.note(ex.Kind, ex.Detail)
		}
	}
}

func hasKind(cats []*cat.Catalog, kind string) bool {
	for _, c := range cats {
		for _, f := range c.Fns {
			if f.Kind == kind {
				return true
			}
		}
	}
	return false
}

func hasNest(cats []*cat.Catalog) bool {
	for _, c := range cats {
		if len(c.NestedInvs()) > 0 {
			return true
		}
	}
	return false
}

func hasChildScope(cats []*cat.Catalog) bool {
	for _, c := range cats {
		if len(c.Parent) > 1 {
			return true
		}
	}
	return false
}

func firstLines(s string, n int) string {
	ls := strings.Split(s, "\n")
	if len(ls) > n {
		ls = ls[:n]
	}
	return strings.Join(ls, " | ")
}

// finish confirms findings in a fresh process, prints the verdict lines, writes the evidence
// file and returns the exit code.
func (rep *Report) finish(def *propDef) int {
	root := verifRoot()
	os.MkdirAll(outDir(root, "replays"), 0o755)
	os.MkdirAll(outDir(root, "evidence"), 0o755)
	known := loadKnown()
	violations := 0
	printed := map[string]bool{}
	for _, f := range rep.Findings {
		key := f.Kind + "|" + f.Detail
		if printed[key] || violations >= 5 {
			continue
		}
		printed[key] = true
		if k := known.match(rep.Prop, f); k != "" {
			fmt.Printf("KNOWN-FINDING: property=%s %s\n", rep.Prop, k)
			continue
		}
		c := rep.confirm(f)
		if c.code == 1 {
			fmt.Printf("VIOLATION property=%s replay=%s\n", rep.Prop, c.path)
			fmt.Printf("  %s: %s\n", f.Kind, f.Detail)
			violations++
		} else {
			rep.Infra = append(rep.Infra, fmt.Sprintf("finding did not reproduce in a fresh process (exit %d): %s: %s\n%s", c.code, f.Kind, f.Detail, firstLines(c.out, 8)))
		}
	}
	var nk []string
	for k := range rep.Notes {
		nk = append(nk, k)
	}
	sort.Strings(nk)
	for _, k := range nk {
		fmt.Printf("NOTE: %d divergence(s) of kind %s outside the projection of %s (not this property's business), e.g. %s\n", rep.Notes[k], k, rep.Prop, firstLines(rep.NoteEx[k], 2))
	}
	rep.writeEvidence(def, violations)
	for _, e := range rep.Infra {
		fmt.Println("INFRA:", firstLines(e, 12))
	}
	switch {
	case violations > 0:
		return 1
	case len(rep.Infra) > 0:
		return 2
	}
	fmt.Printf("OK property=%s tier=%s seed=%d wall=%.1fs\n", rep.Prop, rep.Tier, rep.Seed, time.Since(rep.Start).Seconds())
	return 0
}

func (rep *Report) writeEvidence(def *propDef, violations int) {
	if rep.Tier != "quick" && rep.Tier != "thorough" {
		return // development tiers (smoke) write no evidence
	}
	states, transitions, evals, distinct, traces := 0, 0, 0, 0, 0
	var samples []json.RawMessage
	var stages []map[string]interface{}
	exhaustive := true
	for _, c := range rep.Covers {
		states += c.TLC.Distinct
		transitions += c.TLC.Generated
		evals += c.Ops
		distinct += c.Nontrivial
		samples = append(samples, c.Samples...)
		stages = append(stages, map[string]interface{}{"stage": "cover:" + c.Family, "catalogs": c.Catalogs, "bounds": c.Bounds,
			"tlc_generated": c.TLC.Generated, "tlc_distinct": c.TLC.Distinct, "tlc_depth": c.TLC.Depth, "tlc_wall_s": c.TLC.Wall,
			"histories_replayed_on_real_code": c.Histories, "distinct_histories": c.Distinct, "nontrivial": c.Nontrivial,
			"api_ops": c.Ops, "user_function_executions": c.Execs, "divergences": c.Divs, "tlc_action_coverage": c.TLC.Coverage})
	}
	for _, t := range rep.Traces {
		states += t.TLC.Distinct
		transitions += t.TLC.Generated
		traces += t.Accepted
		evals += t.Ops
		distinct += t.Containers
		samples = append(samples, t.Samples...)
		exhaustive = false
		stages = append(stages, map[string]interface{}{"stage": "trace:" + t.Name, "containers_recorded": t.Containers, "api_ops": t.Ops,
			"user_function_executions": t.Execs, "trace_lines": t.TraceLines, "tlc_states": t.TLC.Distinct, "tlc_wall_s": t.TLC.Wall,
			"predictions_compared": t.Predicted, "containers_accepted": t.Accepted, "strict_rejected_ops": t.StrictBad,
			"variant_executions_compared_pairwise": t.Pairs, "divergences": t.Divs})
		if t.Name == "repo-tests" && rep.RepoStats != nil {
			stages[len(stages)-1]["source"] = "the repository's own test-suite run with the trace hooks of /repo/verif_trace.go (build tag verif); argument values identified by pointer where possible"
			stages[len(stages)-1]["hook_events"] = rep.RepoStats.Events
			stages[len(stages)-1]["containers_in_the_test_suite"] = rep.RepoStats.Containers
			stages[len(stages)-1]["containers_left_out"] = rep.RepoStats.Skipped
			stages[len(stages)-1]["argument_values_identified_by_pointer"] = fmt.Sprintf("%d of %d", rep.RepoStats.Identified, rep.RepoStats.ArgValues)
		}
	}
	for _, s := range rep.Specials {
		states += s.States
		transitions += s.Transitions
		evals += s.Evaluations
		distinct += s.Distinct
		traces += s.Traces
		samples = append(samples, s.Samples...)
		stages = append(stages, map[string]interface{}{"stage": "special:" + s.Name, "evaluations": s.Evaluations, "distinct_nontrivial": s.Distinct,
			"states": s.States, "transitions": s.Transitions, "rule": s.Rule, "extra": s.Extra, "wall_s": s.Wall})
	}
	if len(samples) > 6 {
		samples = samples[:6]
	}
	if len(samples) == 0 {
		samples = []json.RawMessage{json.RawMessage(`"no sample collected"`)}
	}
	ev := map[string]interface{}{
		"property_id": rep.Prop,
		"tier":        rep.Tier,
		"seed":        rep.Seed,
		"level":       "model_checking",
		"coverage": map[string]interface{}{
			"states":                        states,
			"transitions":                   transitions,
			"traces_validated_against_impl": traces + evalsCover(rep),
			"samples":                       samples,
			"evaluations":                   evals,
			"distinct_nontrivial":           distinct,
			"rule":                          "evaluations = API calls (Scope / Provide / Decorate / Invoke, front-end cases) executed on the real code by this run; distinct_nontrivial = distinct histories (operation sequence with fault plan) that execute a user function or contain a rejection, plus recorded containers; traces_validated_against_impl = histories replayed without any divergence plus recorded executions accepted by TLC. cover stages: every API-level transition TLC generates for a catalog family is printed as a history with the specification's predictions and replayed on a fresh real container (distinct = distinct operation sequences with fault plan; non-trivial = executes at least one user function or contains a rejected registration). trace stages: random catalogs/histories run on the real code, recorded, and validated by TLC against the specification (one container = one trace). " + def.rule,
			"exhaustive":                    exhaustive && len(rep.Covers) > 0,
			"stages":                        stages,
			"projection":                    def.projection,
			"notes_outside_projection":      rep.Notes,
			"infra_problems":                rep.Infra,
		},
		"assumptions": append([]string{
			"TLC explores bounded catalog families exhaustively; larger programs are covered by seeded random traces only",
			"user functions of the harness never call back into dig and never return nil on success",
			"group order, error text and the order of independent executions are not compared",
		}, def.assumptions...),
		"wall_s":     time.Since(rep.Start).Seconds(),
		"violations": violations,
	}
	b, _ := json.MarshalIndent(ev, "", " ")
	os.WriteFile(filepath.Join(outDir(verifRoot(), "evidence"), rep.Prop+".json"), b, 0o644)
}

// histories of the cover stages are behaviours of the specification replayed on the
// implementation; they count as validated when they showed no divergence at all
func evalsCover(rep *Report) int {
	n := 0
	for _, c := range rep.Covers {
		bad := 0
		for _, v := range c.Divs {
			bad += v
		}
		if bad == 0 {
			n += c.Histories
		}
	}
	return n
}

// ---------------------------------------------------------------------------------------------

type knownFindings struct {
	Open []struct {
		Property string `json:"property"`
		Kind     string `json:"kind"`
		Match    string `json:"match"` // substring of the divergence detail identifying the failing history
		What     string `json:"what"`
	} `json:"open"`
}

func loadKnown() *knownFindings {
	var k knownFindings
	b, err := os.ReadFile(filepath.Join(verifRoot(), "known_findings.json"))
	if err == nil {
		json.Unmarshal(b, &k)
	}
	return &k
}

func (k *knownFindings) match(prop string, f Finding) string {
	for _, o := range k.Open {
		if o.Property == prop && o.Kind == f.Kind && o.Match != "" && strings.Contains(f.Detail, o.Match) {
			return o.What
		}
	}
	return ""
}

// ---------------------------------------------------------------------------------------------

// replayMain re-runs a replay file in this (fresh) process: exit 1 if a divergence claimed by
// the property shows up again, 0 if not, 2 on infrastructure problems.
func replayMain(args []string) int {
	if len(args) < 1 {
		return 2
	}
	b, err := os.ReadFile(args[0])
	if err != nil {
		fmt.Println("replay:", err)
		return 2
	}
	var f Finding
	if err := json.Unmarshal(b, &f); err != nil {
		fmt.Println("replay:", err)
		return 2
	}
	def := properties[f.Property]
	if def == nil {
		fmt.Println("replay: unknown property", f.Property)
		return 2
	}
	switch f.Source {
	case "cover":
		ml, err := run.ParseModelLine(string(f.Line))
		if err != nil || f.Catalog == nil {
			fmt.Println("replay: bad file")
			return 2
		}
		if f.Kind == "processcrash" {
			// run the history in a child so that a fatal crash is observable
			self, _ := os.Executable()
			dir, _ := newWorkDir("replay")
			defer os.RemoveAll(dir)
			catsFile, _ := writeCats(dir, []*cat.Catalog{f.Catalog})
			ml.Ci = 1
			lb, _ := json.Marshal(ml)
			cmd := exec.Command(self, "worker", "--cats", catsFile)
			cmd.Stdin = strings.NewReader(string(lb) + "\n")
			out, err := cmd.CombinedOutput()
			if err != nil {
				fmt.Println("reproduced: worker died:", firstLines(string(out), 10))
				return 1
			}
			return 0
		}
		res := run.Replay(f.Catalog, ml, run.ReplayOpts{Keep: true})
		if res.Err != "" {
			fmt.Println("replay: harness:", res.Err)
			return 2
		}
		hit := false
		for _, d := range res.Divs {
			mark := " "
			if def.claims(d.Kind, d.Detail) {
				hit = true
				mark = "*"
			}
			fmt.Printf("%s %s op=%d: %s\n", mark, d.Kind, d.Op, d.Detail)
		}
		fmt.Println("history (expected by the specification / observed on the real code):")
		for i, w := range ml.Hist {
			wb, _ := json.Marshal(w)
			fmt.Printf("  %d want %s\n", i, wb)
			if i < len(res.Observed) {
				o := *res.Observed[i]
				o.Snap = nil
				ob, _ := json.Marshal(o)
				fmt.Printf("  %d got  %s\n", i, ob)
			}
		}
		if hit && orderExplains(f.Kind) {
			if ok, _ := vetFreeOrder(def, f.Catalog, ml.Opt, res.Observed); ok {
				fmt.Println("the observed execution is allowed by the specification when independent parameters are built in another order: not a violation")
				return 0
			}
		}
		if hit {
			return 1
		}
		return 0
	case "trace":
		if f.Trace == nil {
			return 2
		}
		cfg := *f.Trace
		st, err := traceStageOnly(cfg, f.Index)
		if err != nil {
			fmt.Println("replay:", err)
			return 2
		}
		if len(st.Crashes) > 0 && f.Kind == "processcrash" {
			fmt.Println("reproduced:", st.Crashes[0])
			return 1
		}
		hit := false
		for _, ex := range st.Examples {
			mark := " "
			if def.claims(ex.Div.Kind, ex.Div.Detail) {
				if orderExplains(ex.Div.Kind) && ex.Rec != nil {
					if ok, _ := vetFreeOrder(def, ex.Rec.Cat, ex.Rec.Opt, ex.Rec.Ops); ok {
						fmt.Printf("~ %s op=%d: %s (allowed under another build order)\n", ex.Div.Kind, ex.Div.Op, ex.Div.Detail)
						continue
					}
				}
				hit = true
				mark = "*"
			}
			fmt.Printf("%s %s op=%d: %s\n", mark, ex.Div.Kind, ex.Div.Op, ex.Div.Detail)
		}
		if hit {
			return 1
		}
		return 0
	case "special":
		return replaySpecial(def, &f)
	}
	return 2
}

// traceStageOnly validates the single container index of a batch.
func traceStageOnly(cfg TraceSpecCfg, index int) (*TraceStats, error) {
	one := cfg
	one.Name = cfg.Name + "-replay"
	st := &TraceStats{Name: one.Name, Divs: map[string]int{}}
	return traceStageFor(one, st, index)
}

var _ = fam.Presets

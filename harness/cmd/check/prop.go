package main

func propMain(args []string) int   { return 2 }
func replayMain(args []string) int { return 2 }

// Command check is the CLI behind every MANIFEST command: it generates catalog families,
// runs TLC on the specification, replays TLC's behaviours on the real code, validates
// recorded traces against the specification, and writes the evidence files.
package main

import (
	"fmt"
	"os"
)

func usage() {
	fmt.Fprintln(os.Stderr, `usage:
  check prop <Cxx> [quick|thorough]     run the check of one property
  check replay <file>                   re-run a replay file; exit 1 if the divergence reproduces
  check worker --cats <file>            (internal) replay worker
  check dev ...                         development helpers`)
}

func main() {
	if len(os.Args) < 2 {
		usage()
		os.Exit(2)
	}
	switch os.Args[1] {
	case "worker":
		catsFile, full := "", false
		for i := 2; i < len(os.Args); i++ {
			switch os.Args[i] {
			case "--cats":
				i++
				catsFile = os.Args[i]
			case "--fullsnap":
				full = true
			}
		}
		os.Exit(workerMain(catsFile, full))
	case "record":
		os.Exit(recordMain(os.Args[2:]))
	case "prop":
		os.Exit(propMain(os.Args[2:]))
	case "replay":
		os.Exit(replayMain(os.Args[2:]))
	case "dev":
		os.Exit(devMain(os.Args[2:]))
	default:
		usage()
		os.Exit(2)
	}
}

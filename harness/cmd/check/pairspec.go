package main

import (
	"encoding/json"
	"fmt"
	"os"
	"path/filepath"
	"time"

	"verif/harness/cat"
)

// pairSpecStage model-checks the relational theorem of spec/DigPair.tla on a family of catalogs:
// two instances of the specification that differ in one option only (mode "dry": DryRun;
// mode "defer": DeferAcyclicVerification) are fed the same API operations in every interleaving
// TLC can generate; C17_DryPair / C16_DeferPair are invariants of the product. It is a statement
// about the specification (a counterexample is a specification problem, exit 2); the code is
// bound to each instance by the cover / trace stages and to the pair by the pair stages.
func pairSpecStage(rep *Report, mode string, cats []*cat.Catalog, maxInv int) {
	start := time.Now()
	dir, err := newWorkDir("pairspec-" + mode)
	if err != nil {
		rep.Infra = append(rep.Infra, err.Error())
		return
	}
	if os.Getenv("VERIF_KEEP") == "" {
		defer os.RemoveAll(dir)
	} else {
		fmt.Println("kept:", dir)
	}
	if _, err := writeCats(dir, cats); err != nil {
		rep.Infra = append(rep.Infra, err.Error())
		return
	}
	os.WriteFile(filepath.Join(dir, "MCPair.tla"), []byte("---- MODULE MCPair ----\nEXTENDS DigPair\n====\n"), 0o644)
	cfg := fmt.Sprintf("SPECIFICATION PairSpec\nCONSTANTS\n  MaxInv = %d\n  MaxFaults = 0\n  FaultKinds = {\"err\", \"panic\"}\n  FreeOrder = FALSE\n  Mode = %q\nINVARIANTS SameHistory C17_DryPair C16_DeferPair\nVIEW PairView\nCHECK_DEADLOCK FALSE\n", maxInv, mode)
	os.WriteFile(filepath.Join(dir, "MCPair.cfg"), []byte(cfg), 0o644)
	st, terr := runTLC(dir, "MCPair", workersN(), 30*time.Minute, nil, nil)
	if terr != nil {
		rep.Infra = append(rep.Infra, "pair specification: "+terr.Error())
	}
	for _, e := range st.Errors {
		rep.Infra = append(rep.Infra, "pair specification: TLC: "+e)
	}
	sample, _ := json.Marshal(map[string]interface{}{"catalog": cats[0], "mode": mode, "invariants": []string{"SameHistory", "C17_DryPair", "C16_DeferPair"}})
	rep.Specials = append(rep.Specials, &SpecialStats{Name: "pair-specification-" + mode, Evaluations: len(cats), Distinct: len(cats), States: st.Distinct, Transitions: st.Generated,
		Rule:    "spec/DigPair.tla: two instances of Dig over the same catalog that differ in one option (" + mode + ") take the same API operations; the relational property is an invariant of the product, checked by TLC over all interleavings of registrations, scope creations and Invokes",
		Samples: []json.RawMessage{sample}, Wall: time.Since(start).Seconds()})
	fmt.Printf("pair specification (%s): %d catalogs, MaxInv=%d; TLC %d generated / %d distinct product states (%.1fs): the relational invariant holds\n", mode, len(cats), maxInv, st.Generated, st.Distinct, st.Wall)
}

package main

import (
	"strings"
	"time"

	"verif/harness/cat"
	"verif/harness/fam"
	"verif/harness/run"
)

// propDef describes how one property is checked.
type propDef struct {
	id          string
	projection  string   // human-readable: which observations are attributed to this property
	kinds       []string // divergence kinds (prefixes) in the projection
	extra       func(kind, detail string) bool
	rule        string
	assumptions []string
	run         func(rep *Report, def *propDef)
}

func (d *propDef) claims(kind, detail string) bool {
	for _, k := range d.kinds {
		if kind == k || strings.HasPrefix(kind, k+".") || (strings.HasSuffix(k, ".") && strings.HasPrefix(kind, k)) {
			return true
		}
	}
	if d.extra != nil {
		return d.extra(kind, detail)
	}
	return false
}

var stdOpts = []cat.Opts{{Recover: true}, {Recover: false}, {Recover: true, Defer: true}}
var allOpts = []cat.Opts{{Recover: true}, {Recover: false}, {Recover: true, Defer: true}, {Recover: true, Dry: true}}

type coverPlan struct {
	name     string
	features fam.Features
	n        int
	bounds   Bounds
}

type tracePlan struct {
	name     string
	features fam.Features
	n        int
	ops      int
	pfault   float64
	opts     []cat.Opts
}

// genericRun runs the cover plans and the trace plans of a property.
func genericRun(covers func(tier string) []coverPlan, traces func(tier string) []tracePlan) func(rep *Report, def *propDef) {
	return func(rep *Report, def *propDef) {
		budget := 8 * time.Minute
		if rep.Tier == "thorough" {
			budget = 40 * time.Minute
		}
		for i, cp := range covers(rep.Tier) {
			cats := fam.RandomFamily(rep.Seed*7919+int64(i), cp.n, cp.features)
			st, err := coverStage(cp.name, cats, cp.bounds, budget, 40)
			rep.takeCover(def, st, cats, err)
		}
		for i, tp := range traces(rep.Tier) {
			cfg := TraceSpecCfg{Name: tp.name, Seed: rep.Seed*104729 + int64(i), Containers: tp.n, Features: tp.features,
				Driver: run.DriverOpts{MaxOps: tp.ops, PFault: tp.pfault, PInvoke: 0.3}, Opts: tp.opts}
			st, err := traceStage(cfg, budget, 40)
			rep.takeTrace(def, st, cfg, err)
		}
	}
}

func withOpts(ft fam.Features, o []cat.Opts) fam.Features { ft.Opts = o; return ft }

func tweak(ft fam.Features, f func(*fam.Features)) fam.Features { f(&ft); return ft }

var errKinds = []string{"err", "panic"}

// scale returns q for the quick tier and t for the thorough tier.
func scale(tier string, q, t int) int {
	if tier == "thorough" {
		return t
	}
	return q
}

func stdCovers(name string, ft fam.Features, faults int) func(string) []coverPlan {
	return func(tier string) []coverPlan {
		return []coverPlan{
			{name + "-small", withOpts(ft, stdOpts), scale(tier, 60, 400), Bounds{MaxInv: 2, MaxFaults: faults, FaultKinds: errKinds}},
		}
	}
}

func stdTraces(name string, ft fam.Features, pfault float64, opts []cat.Opts) func(string) []tracePlan {
	return func(tier string) []tracePlan {
		return []tracePlan{
			{name + "-medium", ft, scale(tier, 60, 600), 40, pfault, opts},
		}
	}
}

var properties = map[string]*propDef{}

func register(d *propDef) { properties[d.id] = d }

func contains(s string, subs ...string) bool {
	for _, x := range subs {
		if strings.Contains(s, x) {
			return true
		}
	}
	return false
}

func init() {
	small := fam.Presets["small"]
	medium := fam.Presets["medium"]
	nogroups := func(f *fam.Features) { f.PGroup = 0.05; f.PGroupDec = 0 }
	groupy := func(f *fam.Features) { f.PGroup = 0.55; f.PSoft = 0.35; f.PFlat = 0.4; f.Types = 2 }
	decy := func(f *fam.Features) { f.Decs = 2; f.PGroupDec = 0.4; f.Types = 2; f.PNamed = 0.05 }

	register(&propDef{id: "C01",
		projection: "argument provenance of every executed user function (single, optional and group parameters), verdict of Invokes the specification says succeed, number of executions of the invoked function",
		kinds:      []string{"args", "exec.depsfirst", "foreignpanic"},
		extra: func(k, d string) bool {
			return (k == "verdict.invoke" && contains(d, "want ok")) || ((k == "exec.extra" || k == "exec.missing") && contains(d, ": i"))
		},
		run: genericRun(stdCovers("core", tweak(small, nogroups), 0), stdTraces("core", medium, 0, stdOpts))})

	register(&propDef{id: "C02",
		projection: "multiset of executions per function over the whole history, execution number carried by every received value, called markers",
		kinds:      []string{"exec.extra", "snap.called", "snap.dcalled", "processcrash"},
		extra: func(k, d string) bool {
			return strings.HasPrefix(k, "args.") && !contains(d, "zero")
		},
		run: genericRun(stdCovers("once", small, 1), stdTraces("once", medium, 0.1, stdOpts))})

	register(&propDef{id: "C03",
		projection: "set of user functions executed per API call (nothing during Provide/Decorate/Scope/Visualize/String; only the closure during Invoke; whole closure on success) and dependency-before-consumer order",
		kinds:      []string{"exec.extra", "exec.missing", "exec.inreg", "exec.depsfirst", "viz.misbehaved"},
		run:        genericRun(stdCovers("lazy", small, 0), stdTraces("lazy", medium, 0, stdOpts))})

	register(&propDef{id: "C04",
		projection: "verdict class of Invoke (missing versus ok), the reported missing keys, zero versus value for optional parameters, executions past a known gap",
		kinds:      []string{"mk", "args.opt"},
		extra: func(k, d string) bool {
			return (k == "verdict.invoke" && contains(d, "missing", "want ok")) || (k == "exec.extra")
		},
		run: genericRun(stdCovers("missing", tweak(small, func(f *fam.Features) { f.POpt = 0.45; f.Ctors = 3; f.Types = 4; f.PGroup = 0.1 }), 1),
			stdTraces("missing", tweak(medium, func(f *fam.Features) { f.POpt = 0.4; f.Types = 6 }), 0.1, stdOpts))})

	register(&propDef{id: "C05",
		projection: "cycle verdicts of Provide and Invoke (three zones), IsCycleDetected, process survival, executions on a cycle",
		kinds:      []string{"processcrash", "class.cycleflag"},
		extra: func(k, d string) bool {
			return strings.HasPrefix(k, "verdict.") && contains(d, "cycle")
		},
		run: genericRun(stdCovers("cycle", tweak(small, func(f *fam.Features) {
			f.Types = 2
			f.PNamed = 0
			f.MaxParams = 2
			f.Ctors = 4
			f.Decs = 1
			f.PAs = 0
		}), 0),
			stdTraces("cycle", tweak(medium, func(f *fam.Features) { f.Types = 3; f.PNamed = 0.05 }), 0, allOpts))})

	register(&propDef{id: "C06",
		projection: "state before/after a rejected Provide or Decorate (real versus real), model state after it, and every later observation of the history",
		kinds:      []string{"notrace", "snap.reg", "snap.decs", "snap.foreign", "info.onreject", "crash"},
		extra: func(k, d string) bool {
			return (strings.HasPrefix(k, "verdict.provide") || strings.HasPrefix(k, "verdict.decorate"))
		},
		run: genericRun(stdCovers("reject", tweak(small, func(f *fam.Features) { f.Types = 2; f.PNamed = 0.05; f.Ctors = 4; f.Decs = 2 }), 0),
			stdTraces("reject", tweak(medium, func(f *fam.Features) { f.Types = 3 }), 0.05, stdOpts))})

	register(&propDef{id: "C07",
		projection: "argument provenance after failures (no value of a failed execution), execution counters (retry), root cause of the failing Invoke, called / decorator markers and caches after a failure",
		kinds:      []string{"root", "snap.vals", "snap.dvals", "snap.grps", "snap.dgrps", "snap.called", "snap.dcalled", "exec.missing", "exec.extra", "args"},
		extra: func(k, d string) bool {
			return k == "verdict.invoke" && contains(d, "fail", "panic")
		},
		run: genericRun(stdCovers("fault", small, 2), stdTraces("fault", medium, 0.25, stdOpts))})

	register(&propDef{id: "C08",
		projection: "verdict and argument provenance of Invokes from every scope, the scope component of cached entries",
		kinds:      []string{"args.req", "args.opt", "args.grp", "snap.vals", "snap.grps", "snap.dvals"},
		extra: func(k, d string) bool {
			return (k == "verdict.invoke" && contains(d, "missing")) || (strings.HasPrefix(k, "verdict.provide") && contains(d, "want ok"))
		},
		run: genericRun(stdCovers("scopes", tweak(small, func(f *fam.Features) { f.Scopes = 3; f.Types = 2; f.PExport = 0.4; f.Decs = 0 }), 0),
			stdTraces("scopes", tweak(medium, func(f *fam.Features) { f.Scopes = 4; f.PExport = 0.4 }), 0, stdOpts))})

	register(&propDef{id: "C09",
		projection: "Provide verdicts (duplicate versus accepted), provenance received under each key, missing verdicts for keys that must not be satisfiable",
		kinds:      []string{"args.req", "args.opt", "snap.foreign"},
		extra: func(k, d string) bool {
			return (strings.HasPrefix(k, "verdict.provide") && contains(d, "dup", "want ok")) || (k == "verdict.invoke" && contains(d, "missing"))
		},
		run: genericRun(stdCovers("keys", tweak(small, func(f *fam.Features) {
			f.Types = 2
			f.PNamed = 0.4
			f.PAs = 0.35
			f.PGroup = 0.3
			f.Ctors = 4
			f.Decs = 0
		}), 0),
			stdTraces("keys", tweak(medium, func(f *fam.Features) { f.Types = 3; f.PNamed = 0.4; f.PAs = 0.3 }), 0, stdOpts))})

	register(&propDef{id: "C10",
		projection: "bag of provenance of every hard group slice, execution counters of feeders",
		kinds:      []string{"args.grp", "snap.grps"},
		extra: func(k, d string) bool {
			return k == "exec.extra" || k == "exec.missing"
		},
		run: genericRun(stdCovers("groups", tweak(small, groupy), 0), stdTraces("groups", tweak(medium, groupy), 0, stdOpts))})

	register(&propDef{id: "C11",
		projection: "bag of every soft group slice, executions caused by soft parameters",
		kinds:      []string{"args.soft", "exec.extra"},
		run: genericRun(stdCovers("soft", tweak(small, func(f *fam.Features) { groupy(f); f.PSoft = 0.6 }), 0),
			stdTraces("soft", tweak(medium, func(f *fam.Features) { groupy(f); f.PSoft = 0.6 }), 0, stdOpts))})

	register(&propDef{id: "C12",
		projection: "provenance received by consumers below decorators and by decorators themselves, decorator execution counters, Decorate verdicts, decorated caches",
		kinds:      []string{"args", "snap.dvals", "snap.dgrps", "snap.dcalled", "snap.decs", "verdict.decorate"},
		extra: func(k, d string) bool {
			return (k == "exec.extra" || k == "exec.missing") && contains(d, ": d")
		},
		run: genericRun(stdCovers("dec", tweak(small, decy), 0), stdTraces("dec", tweak(medium, decy), 0, stdOpts))})

	register(&propDef{id: "C13",
		projection: "public-API classification of every error: RootCause, errors.Is with the execution's sentinel, errors.As(dig.Error), PanicError and its value, IsCycleDetected, identity of the invoked function's error, escaped panics",
		kinds:      []string{"class", "root"},
		extra: func(k, d string) bool {
			return k == "verdict.invoke" && contains(d, "fail", "panic", "invokeerr")
		},
		run: genericRun(stdCovers("errors", small, 2), stdTraces("errors", medium, 0.3, []cat.Opts{{Recover: true}, {Recover: false}}))})

	register(&propDef{id: "C14",
		projection: "panics escaping any API call, rejected inputs changing state, Visualize / String misbehaving",
		kinds:      []string{"crash", "viz.misbehaved", "notrace", "processcrash"},
		extra: func(k, d string) bool {
			return contains(d, "foreignpanic")
		},
		run: genericRun(stdCovers("badinput", small, 1), stdTraces("badinput", medium, 0.1, allOpts))})

	register(&propDef{id: "C15",
		projection: "verdicts, executed functions and per-position provenance across equivalent encodings of the same signatures",
		kinds:      []string{"args", "exec.extra", "exec.missing", "verdict"},
		run: genericRun(stdCovers("encodings", tweak(small, func(f *fam.Features) { f.PObj = 0.6; f.PMulti = 0.5 }), 0),
			stdTraces("encodings", tweak(medium, func(f *fam.Features) { f.PObj = 0.6; f.PMulti = 0.5 }), 0, stdOpts))})

	register(&propDef{id: "C16",
		projection: "verdicts and provenance-by-function across registration orders, scope creation positions and the DeferAcyclicVerification setting",
		kinds:      []string{"args", "verdict", "exec.extra", "exec.missing"},
		run: genericRun(stdCovers("orders", withOpts(small, []cat.Opts{{Recover: true}, {Recover: true, Defer: true}}), 0),
			stdTraces("orders", medium, 0, []cat.Opts{{Recover: true}, {Recover: true, Defer: true}}))})

	register(&propDef{id: "C17",
		projection: "executions in a DryRun container (none), verdict classes of every operation",
		kinds:      []string{"exec.dry", "verdict", "mk"},
		run: genericRun(stdCovers("dry", withOpts(small, []cat.Opts{{Recover: true, Dry: true}, {Recover: true, Dry: true, Defer: true}}), 0),
			stdTraces("dry", medium, 0, []cat.Opts{{Recover: true, Dry: true}, {Dry: true}}))})

	register(&propDef{id: "C18",
		projection: "ProvideInfo / DecorateInfo / InvokeInfo entries (strings, counts, order), untouched on rejection, constructor ids",
		kinds:      []string{"info"},
		run:        genericRun(stdCovers("info", small, 0), stdTraces("info", medium, 0, stdOpts))})

	register(&propDef{id: "C19",
		projection: "parsed DOT structure (clusters, result nodes, edges, dashed, group nodes), failure colouring, CanVisualizeError",
		kinds:      []string{"viz"},
		run:        genericRun(stdCovers("viz", small, 1), stdTraces("viz", medium, 0.1, stdOpts))})

	register(&propDef{id: "C20",
		projection: "CallbackInfo sequence versus the exec log: one callback per execution of a callback-carrying function, Error class, Runtime, Name",
		kinds:      []string{"cb.count", "cb.err", "cb.runtime", "cb.order", "cb.name"},
		run: genericRun(stdCovers("callbacks", tweak(small, func(f *fam.Features) { f.PCb = 0.7 }), 2),
			stdTraces("callbacks", tweak(medium, func(f *fam.Features) { f.PCb = 0.7 }), 0.25, []cat.Opts{{Recover: true}, {Recover: false}}))})

	_ = time.Second
}

func replaySpecial(def *propDef, f *Finding) int { return 2 }

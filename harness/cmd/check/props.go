package main

import (
	"math/rand"
	"os"
	"regexp"
	"strings"
	"time"

	"verif/harness/cat"
	"verif/harness/fam"
	"verif/harness/run"
)

// propDef describes how one property is checked.
type propDef struct {
	id          string
	projection  string   // human-readable: which observations are attributed to this property
	kinds       []string // divergence kinds (prefixes) in the projection
	extra       func(kind, detail string) bool
	rule        string
	assumptions []string
	run         func(rep *Report, def *propDef)
}

func (d *propDef) claims(kind, detail string) bool {
	for _, k := range d.kinds {
		if kind == k || strings.HasPrefix(kind, k+".") || (strings.HasSuffix(k, ".") && strings.HasPrefix(kind, k)) {
			return true
		}
	}
	if d.extra != nil {
		return d.extra(kind, detail)
	}
	return false
}

var stdOpts = []cat.Opts{{Recover: true}, {Recover: false}, {Recover: true, Defer: true}}
var allOpts = []cat.Opts{{Recover: true}, {Recover: false}, {Recover: true, Defer: true}, {Recover: true, Dry: true}}

type coverPlan struct {
	name   string
	bounds Bounds
	cats   func(seed int64, tier string) []*cat.Catalog
}

type tracePlan struct {
	name     string
	features fam.Features
	n        int
	ops      int
	pfault   float64
	opts     []cat.Opts
	variants []string
}

type stagePlan struct {
	covers []coverPlan
	traces func(tier string) []tracePlan
	sig    bool // run the front-end stage (Sig.tla)
	repo   bool // validate the traces of the repository's own test-suite (trace hooks)
	extra  func(rep *Report, def *propDef)
}

// genericRun runs the stages of a property.
func genericRun(sp stagePlan) func(rep *Report, def *propDef) {
	return func(rep *Report, def *propDef) {
		budget := 8 * time.Minute
		if rep.Tier == "thorough" {
			budget = 60 * time.Minute
		}
		// development aid (tools/try_seed.sh): stop at the first stage that has a finding which
		// reproduces in a fresh process
		failFast := func() bool {
			return os.Getenv("VERIF_FAILFAST") != "" && len(rep.Findings) > 0 && rep.anyConfirmed()
		}
		for i, cp := range sp.covers {
			cats := cp.cats(rep.Seed*7919+int64(i), rep.Tier)
			st, err := coverStage(cp.name, cats, cp.bounds, budget, 24, rep.Tier == "thorough" && i == 0)
			rep.takeCover(def, st, cats, err)
			if failFast() {
				return
			}
		}
		if sp.traces != nil {
			for i, tp := range sp.traces(rep.Tier) {
				if failFast() {
					return
				}
				cfg := TraceSpecCfg{Name: tp.name, Seed: rep.Seed*104729 + int64(i), Containers: tp.n, Features: tp.features,
					Driver: run.DriverOpts{MaxOps: tp.ops, PFault: tp.pfault, PInvoke: 0.3}, Opts: tp.opts, Variants: tp.variants}
				st, err := traceStage(cfg, budget, 12)
				rep.takeTrace(def, st, cfg, err)
			}
		}
		if failFast() {
			return
		}
		if sp.sig {
			st, err := sigStage(budget, 6)
			rep.takeSig(def, st, err)
		}
		if failFast() {
			return
		}
		if sp.repo {
			st, rs, err := repoTraceStage(budget, 12)
			rep.takeRepoTrace(def, st, rs, err)
		}
		if sp.extra != nil {
			sp.extra(rep, def)
		}
		if sp.traces != nil && (rep.Tier == "thorough" || rep.Prop == "C01" || rep.Prop == "C07") {
			bindingSelfTest(rep)
		}
	}
}

func withOpts(ft fam.Features, o []cat.Opts) fam.Features { ft.Opts = o; return ft }

func tweak(ft fam.Features, f func(*fam.Features)) fam.Features { f(&ft); return ft }

var errKinds = []string{"err", "panic"}

// scale returns q for the quick tier and t for the thorough tier.
func scale(tier string, q, t int) int {
	if tier == "thorough" {
		return t
	}
	if tier == "smoke" {
		// development aid (tools/try_benign.sh): a fifth of the quick tier
		if q/5 < 3 {
			return 3
		}
		return q / 5
	}
	return q
}

// randCover: q (quick) or t (thorough) random catalogs of the given features.
func randCover(name string, ft fam.Features, opts []cat.Opts, q, t, faults int) coverPlan {
	return coverPlan{name: name, bounds: Bounds{MaxInv: 2, MaxFaults: faults, FaultKinds: errKinds},
		cats: func(seed int64, tier string) []*cat.Catalog {
			return fam.RandomFamily(seed, scale(tier, q, t), withOpts(ft, opts))
		}}
}

// structCover: a structured family, sampled down to q catalogs in the quick tier (t in the
// thorough tier; 0 = the whole family).
func structCover(name string, gen func(opts []cat.Opts, cb bool) []*cat.Catalog, opts []cat.Opts, cb bool, q, t, inv, faults int) coverPlan {
	return coverPlan{name: name, bounds: Bounds{MaxInv: inv, MaxFaults: faults, FaultKinds: errKinds},
		cats: func(seed int64, tier string) []*cat.Catalog {
			return fam.Sample(gen(opts, cb), seed, scale(tier, q, t))
		}}
}

// wideCover: the same family with a single Invoke per behaviour, which makes each catalog cheap,
// over a sample several times larger (quick) or the whole family (thorough).
func wideCover(name string, gen func(opts []cat.Opts, cb bool) []*cat.Catalog, opts []cat.Opts, cb bool, q, faults int) coverPlan {
	return coverPlan{name: name + "-wide", bounds: Bounds{MaxInv: 1, MaxFaults: faults, FaultKinds: errKinds},
		cats: func(seed int64, tier string) []*cat.Catalog {
			return fam.Sample(gen(opts, cb), seed+17, scale(tier, q, 8*q))
		}}
}

// libCover: catalogs built from the declared-function library (function identity matters).
func libCover(name string, opts []cat.Opts, cb bool, q, t, faults int) coverPlan {
	return coverPlan{name: name, bounds: Bounds{MaxInv: 2, MaxFaults: faults, FaultKinds: errKinds},
		cats: func(seed int64, tier string) []*cat.Catalog {
			return fam.LibFamily(seed, scale(tier, q, t), opts, cb)
		}}
}

// pathsCover: tiny random catalogs explored WITHOUT a view: the tree of all histories, every one
// of them replayed (path-sensitive defects: graph positions, leftovers of a rollback).
func pathsCover(opts []cat.Opts, q, t, faults int, tw ...func(*fam.Features)) coverPlan {
	return coverPlan{name: "all-paths", bounds: Bounds{MaxInv: 2, MaxFaults: faults, FaultKinds: errKinds, NoView: true},
		cats: func(seed int64, tier string) []*cat.Catalog {
			ft := fam.Presets["tiny"]
			for _, f := range tw {
				f(&ft)
			}
			return fam.RandomFamily(seed+29, scale(tier, q, t), withOpts(ft, opts))
		}}
}

// allPathsOf: a small structured family explored without a view (every history replayed).
func allPathsOf(name string, gen func(opts []cat.Opts, cb bool) []*cat.Catalog, opts []cat.Opts, inv int) coverPlan {
	return coverPlan{name: name + "-all-paths", bounds: Bounds{MaxInv: inv, MaxFaults: 0, FaultKinds: errKinds, NoView: true},
		cats: func(seed int64, tier string) []*cat.Catalog { return gen(opts, false) }}
}

// libGroupsCover: big value groups over declared functions, registrations in a fixed random order.
func libGroupsCover(opts []cat.Opts, cb bool, q, t, faults int) coverPlan {
	return coverPlan{name: "libgroups", bounds: Bounds{MaxInv: 1, MaxFaults: faults, FaultKinds: errKinds},
		cats: func(seed int64, tier string) []*cat.Catalog {
			return fam.LibGroups(seed, scale(tier, q, t), opts, cb)
		}}
}

// digraphCover: the cycle family: digraphs on 3 constructors over a chain or fan tree.
func digraphCover(name string, kind string, opts []cat.Opts, q, t int) coverPlan {
	return coverPlan{name: name, bounds: Bounds{MaxInv: 1, MaxFaults: 0, FaultKinds: errKinds},
		cats: func(seed int64, tier string) []*cat.Catalog {
			r := rand.New(rand.NewSource(seed))
			k := scale(tier, q, t)
			var idx []int
			for i := 0; i < k; i++ {
				idx = append(idx, r.Intn(512))
			}
			pl := make(map[int][]int)
			scopes := []string{"r", "a", "b"}
			tree := map[string]string{"r": "", "a": "r", "b": "a"}
			if r.Intn(3) == 0 {
				tree = map[string]string{"r": "", "a": "r", "b": "r"}
			}
			placement := func(g, i int) fam.Place {
				if _, ok := pl[g]; !ok {
					pl[g] = []int{r.Intn(3), r.Intn(3), r.Intn(3), r.Intn(4), r.Intn(4), r.Intn(4)}
				}
				s := scopes[pl[g][i]]
				return fam.Place{Scope: s, Exp: s != "r" && pl[g][3+i] == 0}
			}
			return fam.Digraphs(3, idx, placement, kind, opts, tree)
		}}
}

func stdTraces(name string, ft fam.Features, pfault float64, opts []cat.Opts) func(string) []tracePlan {
	return func(tier string) []tracePlan {
		return []tracePlan{
			{name + "-medium", ft, scale(tier, 60, 500), 40, pfault, opts, nil},
			{name + "-large", fam.Presets["large"], scale(tier, 5, 120), 70, pfault, opts, nil},
		}
	}
}

// pairTraces: fault-free random histories recorded together with derived variants.
func pairTraces(name string, ft fam.Features, opts []cat.Opts, variants []string, q, t int) func(string) []tracePlan {
	return func(tier string) []tracePlan {
		return []tracePlan{
			{name + "-pairs", ft, scale(tier, q, t), 36, 0, opts, variants},
			{name + "-pairs-large", fam.Presets["large"], scale(tier, 3, 60), 60, 0, opts, variants},
		}
	}
}

var properties = map[string]*propDef{}

func register(d *propDef) { properties[d.id] = d }

// infoOuts: the expected and the reported outputs in an Info divergence of the front-end stage
var infoOuts = regexp.MustCompile(`ProvideInfo want in=\[.*?\] out=(\[.*?\]) got in=\[.*?\] out=(\[.*?\])`)

// optTagged: the descriptor of a front-end case that carries a non-empty `optional` tag
var optTagged = regexp.MustCompile(`"opt":"[^"]`)

func contains(s string, subs ...string) bool {
	for _, x := range subs {
		if strings.Contains(s, x) {
			return true
		}
	}
	return false
}

func init() {
	small := fam.Presets["small"]
	medium := fam.Presets["medium"]
	nogroups := func(f *fam.Features) { f.PGroup = 0.05; f.PGroupDec = 0 }
	groupy := func(f *fam.Features) { f.PGroup = 0.55; f.PSoft = 0.35; f.PFlat = 0.4; f.Types = 2 }
	decy := func(f *fam.Features) { f.Decs = 2; f.PGroupDec = 0.4; f.Types = 2; f.PNamed = 0.05 }
	rec := []cat.Opts{{Recover: true}}
	recBoth := []cat.Opts{{Recover: true}, {Recover: false}}
	deferBoth := []cat.Opts{{Recover: true}, {Recover: true, Defer: true}}
	dryOpts := []cat.Opts{{Recover: true, Dry: true}, {Recover: true, Dry: true, Defer: true}}

	register(&propDef{id: "C01",
		projection: "argument provenance of every executed user function (single, optional and group parameters), verdict of Invokes the specification says succeed, number of executions of the invoked function",
		kinds:      []string{"args", "exec.depsfirst"},
		extra: func(k, d string) bool {
			return (k == "verdict.invoke" && contains(d, "want ok")) || ((k == "exec.extra" || k == "exec.missing") && contains(d, ": i"))
		},
		run: genericRun(stagePlan{
			covers: []coverPlan{
				randCover("core", tweak(small, nogroups), recBoth, 60, 500, 1),
				structCover("chain", fam.Chain, recBoth, false, 30, 500, 2, 1),
				wideCover("chain", fam.Chain, recBoth, false, 250, 1),
				structCover("shadow", fam.Shadow, rec, false, 30, 0, 2, 0),
				// zero stands in only for what nobody can build: gaps below optional edges, with
				// a shadowed provider further up
				structCover("gaps", fam.Gaps, rec, false, 40, 0, 2, 0),
			},
			traces: stdTraces("core", medium, 0.05, stdOpts)})})

	register(&propDef{id: "C02",
		projection: "multiset of executions per function over the whole history, execution number carried by every received value, called markers",
		kinds:      []string{"exec.extra", "snap.called", "snap.dcalled", "processcrash", "nest.count", "nest.verdict"},
		extra: func(k, d string) bool {
			return strings.HasPrefix(k, "args.") && !contains(d, "zero")
		},
		run: genericRun(stagePlan{
			repo: true,
			covers: []coverPlan{
				randCover("once", small, recBoth, 60, 500, 1),
				structCover("chain", fam.Chain, recBoth, false, 25, 500, 2, 1),
				wideCover("chain", fam.Chain, recBoth, false, 250, 1),
				structCover("groups", fam.Groups, rec, false, 4, 40, 2, 1),
				wideCover("groups", fam.Groups, rec, false, 40, 1),
				structCover("reenter", fam.Reenter, recBoth, false, 25, 200, 2, 1),
				// one key registered in several scopes of a tree that grows while values are built:
				// every scope hands out the instance of its own nearest registration, one each
				structCover("shadow", fam.Shadow, rec, false, 30, 0, 2, 0),
			},
			traces: stdTraces("once", medium, 0.1, stdOpts)})})

	register(&propDef{id: "C03",
		projection: "set of user functions executed per API call (nothing during Provide/Decorate/Scope/Visualize/String; only the closure during Invoke; whole closure on success) and dependency-before-consumer order",
		kinds:      []string{"exec.extra", "exec.missing", "exec.inreg", "exec.depsfirst", "viz.misbehaved"},
		run: genericRun(stagePlan{
			repo: true,
			covers: []coverPlan{
				randCover("lazy", small, rec, 40, 400, 0),
				randCover("lazy-after-failures", small, recBoth, 40, 400, 1),
				structCover("chain", fam.Chain, rec, false, 60, 500, 2, 0),
				wideCover("chain", fam.Chain, rec, false, 250, 0),
				structCover("groups", fam.Groups, rec, false, 15, 40, 2, 0),
				wideCover("groups", fam.Groups, rec, false, 60, 0),
				wideCover("reenter", fam.Reenter, rec, false, 40, 0),
				// what stays outside the closure when an optional edge meets a gap
				structCover("gaps", fam.Gaps, rec, false, 40, 0, 2, 0),
			},
			traces: stdTraces("lazy", medium, 0.06, stdOpts)})})

	register(&propDef{id: "C04",
		projection: "verdict class of Invoke (missing versus ok), the reported missing keys, zero versus value for optional parameters, executions past a known gap",
		kinds:      []string{"mk", "args.opt"},
		extra: func(k, d string) bool {
			// (front end) how an `optional` tag is read: every spelling of a boolean, nothing else
			if strings.HasPrefix(k, "verdict.") && optTagged.MatchString(d) {
				return true
			}
			return (k == "verdict.invoke" && contains(d, "missing", "want ok")) || (k == "exec.extra")
		},
		run: genericRun(stagePlan{
			repo: true,
			covers: []coverPlan{
				randCover("missing", tweak(small, func(f *fam.Features) { f.POpt = 0.45; f.Ctors = 3; f.Types = 4; f.PGroup = 0.1 }), recBoth, 60, 500, 1),
				structCover("chain", fam.Chain, rec, false, 40, 500, 2, 1),
				wideCover("chain", fam.Chain, recBoth, false, 300, 1),
				// a gap far below an optional edge: behind a value group, behind a decorator
				structCover("gaps", fam.Gaps, rec, false, 40, 0, 2, 0),
			},
			traces: stdTraces("missing", tweak(medium, func(f *fam.Features) { f.POpt = 0.4; f.Types = 6 }), 0.1, stdOpts),
			sig:    true})})

	register(&propDef{id: "C05",
		projection: "cycle verdicts of Provide and Invoke (three zones), IsCycleDetected, process survival, executions on a cycle",
		kinds:      []string{"processcrash", "class.cycleflag", "graph.hook"},
		extra: func(k, d string) bool {
			return (strings.HasPrefix(k, "verdict.") || k == "nest.verdict") && contains(d, "cycle")
		},
		run: genericRun(stagePlan{
			repo: true,
			covers: []coverPlan{
				structCover("reenter", fam.Reenter, deferBoth, false, 12, 200, 1, 0),
				structCover("groupcycle", fam.GroupCycle, deferBoth, false, 20, 150, 1, 0),
				allPathsOf("deepcycle", fam.DeepCycle, deferBoth, 1),
				pathsCover(deferBoth, 30, 400, 0),
				digraphCover("digraphs-req", "req", deferBoth, 120, 2500),
				digraphCover("digraphs-opt", "opt", deferBoth, 50, 1200),
				digraphCover("digraphs-grp", "grp", deferBoth, 60, 1500),
				randCover("cycle", tweak(small, func(f *fam.Features) {
					f.Types = 2
					f.PNamed = 0
					f.MaxParams = 2
					f.Ctors = 4
					f.Decs = 1
					f.PAs = 0
				}), deferBoth, 30, 400, 0),
				structCover("chain", fam.Chain, deferBoth, false, 15, 500, 2, 1),
				wideCover("chain", fam.Chain, deferBoth, false, 150, 0),
			},
			traces: stdTraces("cycle", tweak(medium, func(f *fam.Features) { f.Types = 3; f.PNamed = 0.05 }), 0.05, allOpts),
			extra: func(rep *Report, def *propDef) {
				graphStage(rep, def)
				r := rand.New(rand.NewSource(rep.Seed))
				var idx []int
				for i := 0; i < scale(rep.Tier, 40, 300); i++ {
					idx = append(idx, r.Intn(512))
				}
				tree := map[string]string{"r": "", "a": "r", "b": "a"}
				pl := func(g, i int) fam.Place {
					return fam.Place{Scope: []string{"r", "a", "b"}[(g>>uint(i))%3], Exp: (g>>uint(3+i))%4 == 0 && (g>>uint(i))%3 != 0}
				}
				cats := fam.Digraphs(3, idx, pl, "grp", deferBoth, tree)
				cats = append(cats, fam.Sample(fam.Chain(recBoth, false), rep.Seed, scale(rep.Tier, 25, 200))...)
				cats = append(cats, fam.Sample(fam.Reenter(recBoth, false), rep.Seed, scale(rep.Tier, 10, 80))...)
				livenessStage(rep, "digraphs+chain+reenter", cats, Bounds{MaxInv: 1, MaxFaults: 1, FaultKinds: errKinds})
			}})})

	register(&propDef{id: "C06",
		projection: "state before/after a rejected Provide or Decorate (real versus real), model state after it, and every later observation of the history",
		kinds:      []string{"notrace", "followup", "snap.reg", "snap.decs", "snap.foreign", "info.onreject", "crash", "verdict", "exec.extra", "exec.inreg", "viz.misbehaved"},
		run: genericRun(stagePlan{
			covers: []coverPlan{
				randCover("reject", tweak(small, func(f *fam.Features) { f.Types = 2; f.PNamed = 0.05; f.Ctors = 3; f.Decs = 1; f.PInvalid = 0.7 }), deferBoth, 40, 400, 0),
				pathsCover(rec, 30, 400, 0, func(f *fam.Features) { f.PInvalid = 0.7 }),
				structCover("groupcycle", fam.GroupCycle, rec, false, 16, 150, 2, 0),
				digraphCover("digraphs-req", "req", rec, 100, 1500),
				digraphCover("digraphs-grp", "grp", rec, 50, 800),
				structCover("shadow", fam.Shadow, rec, false, 60, 0, 2, 0),
			},
			traces: stdTraces("reject", tweak(medium, func(f *fam.Features) { f.Types = 3; f.PInvalid = 0.8 }), 0.05, stdOpts),
			sig:    true})})

	register(&propDef{id: "C07",
		projection: "argument provenance after failures (no value of a failed execution), execution counters (retry), root cause of the failing Invoke, called / decorator markers and caches after a failure",
		kinds:      []string{"root", "snap.vals", "snap.dvals", "snap.grps", "snap.dgrps", "snap.called", "snap.dcalled", "snap.foreign", "exec.missing", "exec.extra", "args"},
		extra: func(k, d string) bool {
			return k == "verdict.invoke" && contains(d, "fail", "panic", "invokeerr", "cycle")
		},
		run: genericRun(stagePlan{
			repo: true,
			covers: []coverPlan{
				randCover("fault", small, recBoth, 40, 400, 2),
				pathsCover(recBoth, 30, 400, 1),
				structCover("chain", fam.Chain, recBoth, true, 20, 500, 2, 2),
				wideCover("chain", fam.Chain, recBoth, true, 200, 1),
				structCover("groups", fam.Groups, recBoth, false, 3, 40, 2, 1),
			},
			traces: stdTraces("fault", medium, 0.25, stdOpts)})})

	register(&propDef{id: "C08",
		projection: "verdict and argument provenance of Invokes from every scope, the scope component of cached entries",
		kinds:      []string{"args.req", "args.opt", "args.grp", "snap.vals", "snap.grps", "snap.dvals"},
		extra: func(k, d string) bool {
			return (k == "verdict.invoke" && contains(d, "missing")) || (strings.HasPrefix(k, "verdict.provide") && contains(d, "want ok"))
		},
		run: genericRun(stagePlan{
			repo: true,
			covers: []coverPlan{
				structCover("chain", fam.Chain, rec, false, 60, 500, 2, 0),
				wideCover("chain", fam.Chain, rec, false, 300, 0),
				structCover("shadow", fam.Shadow, rec, false, 30, 0, 2, 0),
				wideCover("shadow", fam.Shadow, rec, false, 80, 0),
				structCover("groups", fam.Groups, rec, false, 12, 40, 2, 0),
				randCover("scopes", tweak(small, func(f *fam.Features) { f.Scopes = 3; f.Types = 2; f.PExport = 0.4; f.Decs = 0 }), rec, 40, 400, 0),
				pathsCover(rec, 30, 400, 0),
				structCover("deeptree", fam.DeepTree, rec, false, 8, 0, 2, 0),
			},
			traces: stdTraces("scopes", tweak(medium, func(f *fam.Features) { f.Scopes = 4; f.PExport = 0.4 }), 0, stdOpts)})})

	register(&propDef{id: "C09",
		projection: "Provide verdicts (duplicate versus accepted), provenance received under each key, missing verdicts for keys that must not be satisfiable",
		kinds:      []string{"args.req", "args.opt", "snap.foreign"},
		extra: func(k, d string) bool {
			// an empty group name would alias the key of the unnamed single value
			emptyGroup := contains(d, `"grp":",`, `"group":",`)
			// (front end) the keys an accepted Provide occupies are the outputs it reports
			if k == "info" {
				if m := infoOuts.FindStringSubmatch(d); m != nil && m[1] != m[2] {
					return true
				}
			}
			return (strings.HasPrefix(k, "verdict.provide") && (contains(d, "dup", "want ok") || emptyGroup)) || (k == "verdict.invoke" && contains(d, "missing")) || (k == "crash" && emptyGroup)
		},
		run: genericRun(stagePlan{
			covers: []coverPlan{
				randCover("keys", tweak(small, func(f *fam.Features) {
					f.Types = 2
					f.PNamed = 0.4
					f.PAs = 0.35
					f.PGroup = 0.3
					f.Ctors = 4
					f.Decs = 0
				}), rec, 100, 800, 0),
				structCover("keys", fam.Keys, rec, false, 40, 600, 2, 0),
				wideCover("keys", fam.Keys, rec, false, 200, 0),
			},
			traces: stdTraces("keys", tweak(medium, func(f *fam.Features) { f.Types = 3; f.PNamed = 0.4; f.PAs = 0.3 }), 0, stdOpts),
			sig:    true})})

	register(&propDef{id: "C10",
		projection: "bag of provenance of every hard group slice, execution counters of feeders, a consumer of a group being called at all (no panic on the way)",
		kinds:      []string{"args.grp", "snap.grps", "crash"},
		extra: func(k, d string) bool {
			return k == "exec.extra" || k == "exec.missing"
		},
		run: genericRun(stagePlan{
			repo: true,
			covers: []coverPlan{
				structCover("groups", fam.Groups, rec, false, 24, 40, 2, 0),
				wideCover("groups", fam.Groups, recBoth, false, 100, 1),
				wideCover("softnest", fam.SoftNest, rec, false, 60, 0),
				structCover("groupcycle", fam.GroupCycle, rec, false, 10, 100, 2, 0),
				wideCover("keys", fam.Keys, rec, false, 100, 0),
				// a group of interfaces, nil interfaces among the flattened members
				structCover("ifacegroups", fam.IfaceGroups, rec, false, 40, 0, 2, 0),
				randCover("groups-rand", tweak(small, groupy), rec, 40, 400, 0),
				randCover("groups-after-failures", tweak(small, groupy), recBoth, 40, 400, 1),
			},
			traces: stdTraces("groups", tweak(medium, groupy), 0.06, stdOpts)})})

	register(&propDef{id: "C11",
		projection: "bag of every soft group slice, executions caused by soft parameters",
		kinds:      []string{"args.soft", "exec.extra"},
		run: genericRun(stagePlan{
			repo: true,
			covers: []coverPlan{
				structCover("groups", fam.Groups, rec, false, 20, 40, 2, 0),
				structCover("softnest", fam.SoftNest, rec, false, 30, 300, 2, 1),
				wideCover("softnest", fam.SoftNest, rec, false, 120, 1),
				wideCover("groups", fam.Groups, rec, false, 80, 0),
				randCover("soft-rand", tweak(small, func(f *fam.Features) { groupy(f); f.PSoft = 0.6 }), rec, 80, 500, 0),
				// a soft consumer next to every pair of decorators: no scope decorates the group unless a
				// Decorate was accepted
				structCover("decpairs", fam.DecPairs, rec, false, 75, 0, 2, 0),
			},
			traces: stdTraces("soft", tweak(medium, func(f *fam.Features) { groupy(f); f.PSoft = 0.6 }), 0, stdOpts)})})

	register(&propDef{id: "C12",
		projection: "provenance received by consumers below decorators and by decorators themselves, decorator execution counters, Decorate verdicts, decorated caches",
		kinds:      []string{"args", "snap.dvals", "snap.dgrps", "snap.dcalled", "snap.decs", "verdict.decorate"},
		extra: func(k, d string) bool {
			return (k == "exec.extra" || k == "exec.missing") && contains(d, ": d")
		},
		run: genericRun(stagePlan{
			repo: true,
			covers: []coverPlan{
				structCover("chain", fam.Chain, rec, false, 60, 500, 2, 0),
				wideCover("chain", fam.Chain, rec, false, 300, 0),
				structCover("shadow", fam.Shadow, rec, false, 30, 0, 2, 0),
				structCover("groups", fam.Groups, rec, false, 16, 60, 2, 0),
				wideCover("groups", fam.Groups, rec, false, 100, 0),
				randCover("dec-rand", tweak(small, decy), rec, 40, 400, 0),
				// one decorator per key and scope: every pair of decorators meeting in a scope
				structCover("decpairs", fam.DecPairs, rec, false, 75, 0, 2, 0),
			},
			traces: stdTraces("dec", tweak(medium, decy), 0, stdOpts)})})

	register(&propDef{id: "C13",
		projection: "public-API classification of every error: RootCause, errors.Is with the execution's sentinel, errors.As(dig.Error), PanicError and its value, IsCycleDetected, identity of the invoked function's error, escaped panics",
		kinds:      []string{"class", "root", "nest.root"},
		extra: func(k, d string) bool {
			// "IsCycleDetected is true exactly for cycle rejections": a cycle verdict where the
			// specification has none (or the reverse) is a misclassified error
			return ((k == "verdict.invoke" || k == "nest.verdict") && contains(d, "fail", "panic", "invokeerr")) || ((strings.HasPrefix(k, "verdict.") || k == "nest.verdict") && contains(d, "want cycle", "got cycle"))
		},
		run: genericRun(stagePlan{
			repo: true,
			covers: []coverPlan{
				randCover("errors", small, recBoth, 40, 500, 2),
				structCover("chain", fam.Chain, recBoth, true, 20, 500, 2, 2),
				structCover("groups", fam.Groups, recBoth, false, 8, 40, 2, 1),
				structCover("reenter", fam.Reenter, recBoth, false, 12, 200, 2, 1),
			},
			traces: stdTraces("errors", medium, 0.3, recBoth),
			sig:    true})})

	register(&propDef{id: "C14",
		projection: "panics escaping any API call, rejected inputs changing state, Visualize / String misbehaving, verdict of the front end on every enumerated signature",
		kinds:      []string{"crash", "viz.misbehaved", "notrace", "followup", "processcrash", "verdict.provide", "verdict.decorate", "info.onreject"},
		extra: func(k, d string) bool {
			return contains(d, "foreignpanic")
		},
		run: genericRun(stagePlan{
			covers: []coverPlan{
				randCover("badinput", tweak(small, func(f *fam.Features) { f.PInvalid = 0.9; f.Ctors = 2 }), allOpts, 60, 400, 1),
				// pictures of failures on every path: feeders, consumers and decorators of a group
				structCover("groups-failing", fam.Groups, rec, false, 12, 60, 1, 1),
			},
			traces: stdTraces("badinput", tweak(medium, func(f *fam.Features) { f.PInvalid = 0.9 }), 0.1, allOpts),
			sig:    true})})

	register(&propDef{id: "C15",
		projection: "verdicts, executed functions and per-position provenance across equivalent encodings of the same signatures",
		kinds:      []string{"args", "exec.extra", "exec.missing", "verdict", "info", "pair.enc"},
		run: genericRun(stagePlan{
			covers: []coverPlan{
				randCover("encodings", tweak(small, func(f *fam.Features) { f.PObj = 0.6; f.PMulti = 0.5 }), rec, 100, 600, 0),
				// where resolution stops after a failure is the same for fields as for positions
				randCover("encodings-faults", tweak(small, func(f *fam.Features) { f.PObj = 0.7; f.PMulti = 0.3; f.MaxParams = 3 }), recBoth, 40, 300, 1),
			},
			traces: pairTraces("encodings", tweak(medium, func(f *fam.Features) { f.PObj = 0.5; f.PMulti = 0.5 }), stdOpts, []string{"enc", "enc"}, 40, 400),
			sig:    true})})

	register(&propDef{id: "C16",
		projection: "verdicts and provenance-by-function across registration orders, scope creation positions and the DeferAcyclicVerification setting",
		kinds:      []string{"args", "verdict", "exec.extra", "exec.missing", "pair.perm", "pair.scope", "pair.defer"},
		run: genericRun(stagePlan{
			repo: true,
			covers: []coverPlan{
				randCover("orders", small, deferBoth, 40, 400, 0),
				pathsCover(deferBoth, 30, 400, 0),
				allPathsOf("deepcycle", fam.DeepCycle, deferBoth, 1),
				randCover("orders-rejects", tweak(small, func(f *fam.Features) { f.PInvalid = 0.8; f.Types = 2; f.PNamed = 0.05 }), deferBoth, 30, 300, 0),
				structCover("chain", fam.Chain, deferBoth, false, 50, 500, 2, 0),
				structCover("groups", fam.Groups, deferBoth, false, 10, 40, 2, 0),
				digraphCover("digraphs-grp", "grp", deferBoth, 60, 800),
				// two decorators arriving in either order: the same one is refused, or none
				structCover("decpairs", fam.DecPairs, deferBoth, false, 75, 0, 2, 0),
			},
			traces: pairTraces("orders", tweak(medium, func(f *fam.Features) { f.PInvalid = 0.5 }), deferBoth, []string{"perm", "perm", "scope-early", "scope-late", "defer"}, 25, 300),
			extra: func(rep *Report, def *propDef) {
				cats := fam.RandomFamily(rep.Seed*31+5, scale(rep.Tier, 40, 400), withOpts(small, rec))
				cats = append(cats, fam.Digraphs(3, []int{7, 42, 73, 146, 273, 292, 311, 438, 511}, func(g, i int) fam.Place {
					return fam.Place{Scope: []string{"r", "a", "b"}[(g+i)%3]}
				}, "req", rec, map[string]string{"r": "", "a": "r", "b": "a"})...)
				pairSpecStage(rep, "defer", cats, 2)
			}})})

	register(&propDef{id: "C17",
		projection: "executions in a DryRun container (none), verdict classes of every operation",
		kinds:      []string{"exec.dry", "verdict", "mk", "pair.dry"},
		run: genericRun(stagePlan{
			repo: true,
			covers: []coverPlan{
				randCover("dry", small, dryOpts, 50, 400, 0),
				structCover("chain", fam.Chain, dryOpts, false, 50, 500, 2, 0),
				structCover("groups", fam.Groups, dryOpts, false, 10, 40, 2, 0),
				digraphCover("digraphs-req", "req", dryOpts, 60, 800),
			},
			traces: func(tier string) []tracePlan {
				return append(stdTraces("dry", medium, 0, []cat.Opts{{Recover: true, Dry: true}, {Dry: true}, {Dry: true, Defer: true}})(tier),
					pairTraces("dry", medium, []cat.Opts{{Recover: true}, {Recover: true, Defer: true}}, []string{"dry"}, 40, 400)(tier)...)
			},
			extra: func(rep *Report, def *propDef) {
				cats := fam.RandomFamily(rep.Seed*31+5, scale(rep.Tier, 40, 400), withOpts(tweak(small, func(f *fam.Features) { f.PReenter = 0.03 }), []cat.Opts{{Recover: true}, {Recover: true, Defer: true}}))
				pairSpecStage(rep, "dry", cats, 2)
			}})})

	register(&propDef{id: "C18",
		projection: "ProvideInfo / DecorateInfo / InvokeInfo entries (strings, counts, order), untouched on rejection, constructor ids",
		kinds:      []string{"info"},
		run: genericRun(stagePlan{
			covers: []coverPlan{
				randCover("info", small, rec, 60, 400, 0),
				libCover("lib", rec, false, 8, 80, 0),
				// what is reported does not depend on how the function then fares
				randCover("info-failures", small, recBoth, 30, 300, 1),
			},
			traces: stdTraces("info", medium, 0.1, stdOpts),
			sig:    true})})

	register(&propDef{id: "C19",
		projection: "parsed DOT structure (clusters, result nodes, edges, dashed, group nodes), failure colouring, CanVisualizeError",
		kinds:      []string{"viz"},
		run: genericRun(stagePlan{
			covers: []coverPlan{
				randCover("viz", small, rec, 50, 400, 1),
				libCover("lib", recBoth, false, 10, 100, 2),
				libGroupsCover(recBoth, false, 80, 1500, 1),
				structCover("groups", fam.Groups, rec, false, 8, 40, 2, 1),
				digraphCover("digraphs-req", "req", rec, 40, 600),
			},
			traces: stdTraces("viz", medium, 0.1, stdOpts)})})

	register(&propDef{id: "C20",
		projection: "CallbackInfo sequence versus the exec log: one callback per execution of a callback-carrying function, Error class, Runtime, Name",
		kinds:      []string{"cb.count", "cb.err", "cb.runtime", "cb.order", "cb.name"},
		run: genericRun(stagePlan{
			covers: []coverPlan{
				randCover("callbacks", tweak(small, func(f *fam.Features) { f.PCb = 0.7 }), recBoth, 50, 500, 2),
				structCover("chain", fam.Chain, recBoth, true, 20, 500, 2, 2),
				structCover("groups", fam.Groups, recBoth, true, 6, 40, 2, 1),
				libCover("lib", recBoth, true, 6, 60, 2),
				libGroupsCover(recBoth, true, 30, 600, 1),
			},
			traces: stdTraces("callbacks", tweak(medium, func(f *fam.Features) { f.PCb = 0.7 }), 0.25, recBoth),
			sig:    true})})
}

func replaySpecial(def *propDef, f *Finding) int {
	switch f.Stage {
	case "graph":
		return replayGraph(f.Special)
	case "sig":
		return replaySig(def, f.Special)
	case "repo-tests":
		return replayRepoTrace(def, f)
	}
	return 2
}

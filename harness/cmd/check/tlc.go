package main

import (
	"bufio"
	"context"
	"fmt"
	"io"
	"os"
	"os/exec"
	"path/filepath"
	"regexp"
	"strconv"
	"strings"
	"time"
)

// TLCStats is what one TLC run reported.
type TLCStats struct {
	Generated int
	Distinct  int
	Depth     int
	Lines     int // JSON lines emitted through PrintT
	Wall      float64
	Errors    []string // anything TLC reported as an error (a specification problem: exit 2)
	TimedOut  bool
	Coverage  map[string]int // with -coverage: action name -> number of states it generated
}

var (
	reStates = regexp.MustCompile(`^(\d+) states generated, (\d+) distinct states found`)
	reDepth  = regexp.MustCompile(`depth of the complete state graph search is (\d+)`)
	reSimul  = regexp.MustCompile(`^The number of states generated: (\d+)`)
	reCover  = regexp.MustCompile(`^<(\w+) line \d+, col \d+ to line \d+, col \d+ of module \w+>: (\d+):(\d+)`)
)

// specDir is /verif/spec.
func specDir() string { return filepath.Join(verifRoot(), "spec") }

func verifRoot() string {
	if r := os.Getenv("VERIF_ROOT"); r != "" {
		return r
	}
	return "/verif"
}

// newWorkDir creates a scratch directory under /verif/.work holding copies of the spec modules.
func newWorkDir(name string) (string, error) {
	dir := filepath.Join(verifRoot(), ".work", fmt.Sprintf("%s-%d-%d", name, os.Getpid(), time.Now().UnixNano()%1e9))
	if err := os.MkdirAll(dir, 0o755); err != nil {
		return "", err
	}
	ms, _ := filepath.Glob(filepath.Join(specDir(), "*.tla"))
	for _, m := range ms {
		b, err := os.ReadFile(m)
		if err != nil {
			return "", err
		}
		if err := os.WriteFile(filepath.Join(dir, filepath.Base(m)), b, 0o644); err != nil {
			return "", err
		}
	}
	return dir, nil
}

// runTLC runs TLC on module.tla / module.cfg in dir. Every output line that is a JSON string
// literal (a PrintT of ToJson) is unquoted and handed to onJSON.
func runTLC(dir, module string, workers int, timeout time.Duration, extra []string, onJSON func(string)) (TLCStats, error) {
	var st TLCStats
	start := time.Now()
	ctx, cancel := context.WithTimeout(context.Background(), timeout)
	defer cancel()
	args := []string{"-XX:+UseParallelGC", "-Xss256m", "-cp", "/opt/veriftools/tla/tla2tools.jar:/opt/veriftools/tla/CommunityModules-deps.jar",
		"tlc2.TLC", "-workers", strconv.Itoa(workers), "-metadir", filepath.Join(dir, "meta-"+module), "-config", module + ".cfg"}
	args = append(args, extra...)
	args = append(args, module+".tla")
	heap := os.Getenv("VERIF_TLC_HEAP")
	if heap == "" {
		heap = "8g"
	}
	args = append([]string{"-Xmx" + heap}, args...)
	cmd := exec.CommandContext(ctx, "java", args...)
	cmd.Dir = dir
	cmd.Env = append(os.Environ(), "JAVA_TOOL_OPTIONS=")
	out, err := cmd.StdoutPipe()
	if err != nil {
		return st, err
	}
	cmd.Stderr = cmd.Stdout
	if err := cmd.Start(); err != nil {
		return st, err
	}
	rd := bufio.NewReaderSize(out, 1<<20)
	var tail []string
	inErr := false
	for {
		line, err := rd.ReadString('\n')
		if len(line) > 0 {
			line = strings.TrimRight(line, "\r\n")
			if strings.HasPrefix(line, `"{`) {
				s, uerr := strconv.Unquote(line)
				if uerr == nil {
					st.Lines++
					if onJSON != nil {
						onJSON(s)
					}
					goto next
				}
			}
			if m := reStates.FindStringSubmatch(line); m != nil {
				st.Generated, _ = strconv.Atoi(m[1])
				st.Distinct, _ = strconv.Atoi(m[2])
			} else if m := reDepth.FindStringSubmatch(line); m != nil {
				st.Depth, _ = strconv.Atoi(m[1])
			} else if m := reSimul.FindStringSubmatch(line); m != nil {
				st.Generated, _ = strconv.Atoi(m[1])
			} else if m := reCover.FindStringSubmatch(line); m != nil {
				if st.Coverage == nil {
					st.Coverage = map[string]int{}
				}
				n, _ := strconv.Atoi(m[3])
				st.Coverage[m[1]] += n
			}
			if strings.HasPrefix(line, "Error:") || strings.Contains(line, "is violated") || strings.Contains(line, "Exception") {
				inErr = true
			}
			if strings.Contains(line, "Parsing or semantic analysis failed") {
				// the diagnosis precedes the verdict line
				st.Errors = append(st.Errors, tail...)
			}
			if inErr && len(st.Errors) < 60 {
				st.Errors = append(st.Errors, line)
			}
			tail = append(tail, line)
			if len(tail) > 40 {
				tail = tail[1:]
			}
		}
	next:
		if err != nil {
			if err != io.EOF {
				st.Errors = append(st.Errors, "read: "+err.Error())
			}
			break
		}
	}
	werr := cmd.Wait()
	st.Wall = time.Since(start).Seconds()
	if ctx.Err() == context.DeadlineExceeded {
		st.TimedOut = true
		return st, fmt.Errorf("TLC timed out after %v", timeout)
	}
	if werr != nil && len(st.Errors) == 0 {
		st.Errors = append(st.Errors, "tlc exit: "+werr.Error())
		st.Errors = append(st.Errors, tail...)
	}
	return st, nil
}

package main

import (
	"encoding/json"
	"fmt"
	"os"
	"path/filepath"
	"strings"
	"sync"
	"time"

	"verif/harness/run"
)

// SigStats is what the front-end stage measured.
type SigStats struct {
	Cases    int
	Tests    int // API calls made on the real code
	Accepted int // cases Provide accepts
	TLC      TLCStats
	Divs     map[string]int
	Examples []run.SigDiv
	Samples  []json.RawMessage
	Wall     float64
}

// sigStage enumerates the signature grammar of Sig.tla with TLC (checking its internal
// theorems) and runs the real front end on every enumerated case.
func sigStage(timeout time.Duration, maxExamples int) (*SigStats, error) {
	start := time.Now()
	st := &SigStats{Divs: map[string]int{}}
	dir, err := newWorkDir("sig")
	if err != nil {
		return nil, err
	}
	defer os.RemoveAll(dir)
	os.WriteFile(filepath.Join(dir, "MCSig.tla"), []byte("---- MODULE MCSig ----\nEXTENDS Sig\n====\n"), 0o644)
	os.WriteFile(filepath.Join(dir, "MCSig.cfg"), []byte("SPECIFICATION SigSpec\nINVARIANTS T_ParamsShared T_AcceptedHasKeys T_FlatParamShape T_FlatResultShape T_InvokeWeaker\nCHECK_DEADLOCK FALSE\n"), 0o644)
	lines := make(chan string, 1024)
	var mu sync.Mutex
	var wg sync.WaitGroup
	for w := 0; w < workersN(); w++ {
		wg.Add(1)
		go func() {
			defer wg.Done()
			for s := range lines {
				var l run.SigLine
				if err := json.Unmarshal([]byte(s), &l); err != nil {
					mu.Lock()
					st.Divs["harness.parse"]++
					mu.Unlock()
					continue
				}
				ds := run.TestSig(&l)
				mu.Lock()
				st.Cases++
				st.Tests += 9 + 9*7
				if l.Pv == "ok" {
					st.Accepted++
					if len(st.Samples) < 2 && len(l.Fp) > 0 {
						st.Samples = append(st.Samples, json.RawMessage(s))
					}
				}
				for _, d := range ds {
					st.Divs[d.Kind]++
					if len(st.Examples) < maxExamples {
						st.Examples = append(st.Examples, d)
					}
				}
				mu.Unlock()
			}
		}()
	}
	tl, terr := runTLC(dir, "MCSig", workersN(), timeout, nil, func(s string) { lines <- s })
	close(lines)
	wg.Wait()
	st.TLC = tl
	st.Wall = time.Since(start).Seconds()
	return st, terr
}

func (st *SigStats) summary() string {
	s := fmt.Sprintf("sig: TLC enumerated %d signature cases (%d states, %.1fs), internal theorems checked; %d cases run through the real Provide/Decorate/Invoke in 3 container states (%d API calls), %d accepted by Provide",
		st.TLC.Lines, st.TLC.Distinct, st.TLC.Wall, st.Cases, st.Tests, st.Accepted)
	for k, v := range st.Divs {
		s += fmt.Sprintf("\n  divergence %-22s %d", k, v)
	}
	return s
}

// replaySig re-runs one signature case on the real code.
func replaySig(def *propDef, b json.RawMessage) int {
	var d run.SigDiv
	if json.Unmarshal(b, &d) != nil {
		return 2
	}
	i := strings.Index(d.Detail, " sig=")
	j := strings.Index(d.Detail, " opts=")
	if i < 0 || j < 0 {
		return 2
	}
	// the specification's verdicts are not stored with the finding: enumerate again and pick the case
	st, err := sigStage(10*time.Minute, 1000000)
	if err != nil || st == nil {
		return 2
	}
	for _, ex := range st.Examples {
		if ex.Kind == d.Kind && strings.HasSuffix(ex.Detail, d.Detail[i:]) {
			fmt.Println("reproduced:", ex.Kind, ex.Detail)
			return 1
		}
	}
	return 0
}

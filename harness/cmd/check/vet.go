package main

import (
	"encoding/json"
	"fmt"
	"os"
	"path/filepath"
	"strings"
	"time"

	"verif/harness/cat"
	"verif/harness/run"
)

// orderExplains reports whether a divergence of this kind can be the effect of nothing but a
// different order in which independent parameters were built.
func orderExplains(kind string) bool {
	for _, p := range []string{"exec.", "root", "verdict.invoke", "args.", "snap.called", "snap.dcalled", "snap.vals", "snap.dvals", "snap.grps", "snap.dgrps", "cb.", "mk", "nest.",
		"viz.root", "viz.trans", "viz.ctors", "viz.pruned", "viz.can"} {
		if kind == p || strings.HasPrefix(kind, p) {
			return true
		}
	}
	return false
}

// vetFreeOrder decides whether an execution observed on the real code - which differs from the
// strict prediction of the specification - is nevertheless a behaviour the specification allows
// when independent parameters may be built in any order (dig documents the order of
// instantiation as unspecified): the observed execution is validated as a trace by TLC against
// DigTrace with FreeOrder = TRUE, where every step may pick any parameter the properties allow
// and the recording prunes the search. If some branch explains the whole recording, the
// specification's predictions along that branch (state, pictures, ...) are compared with the
// observations once more, and only if nothing the property claims differs is the execution
// accepted. It never runs while model and code agree.
func vetFreeOrder(def *propDef, c *cat.Catalog, opt cat.Opts, ops []*run.Entry) (bool, error) {
	if len(ops) == 0 {
		return false, nil
	}
	for _, e := range ops {
		if e.Crash != "" {
			return false, nil
		}
	}
	dir, err := newWorkDir("vet")
	if err != nil {
		return false, err
	}
	defer os.RemoveAll(dir)
	cc := c.Clone()
	cc.Opts = []cat.Opts{opt}
	recs := []*run.Recorded{{Cat: cc, Opt: opt, Ops: ops}}
	if _, err := writeCats(dir, []*cat.Catalog{cc}); err != nil {
		return false, err
	}
	mod, lines, _ := run.TraceModule(recs)
	os.WriteFile(filepath.Join(dir, "DigTraceData.tla"), []byte(mod), 0o644)
	os.WriteFile(filepath.Join(dir, "MCVet.tla"), []byte("---- MODULE MCVet ----\nEXTENDS DigTrace\n====\n"), 0o644)
	cfg := "SPECIFICATION TraceSpec\nCONSTANTS\n  MaxInv = 1000000\n  MaxFaults = 1000000\n  FaultKinds = {\"err\", \"panic\"}\n  FreeOrder = TRUE\nCHECK_DEADLOCK FALSE\n"
	os.WriteFile(filepath.Join(dir, "MCVet.cfg"), []byte(cfg), 0o644)
	accepted := false
	preds := map[int][]*tracePrediction{}
	st, terr := runTLC(dir, "MCVet", 1, 5*time.Minute, nil, func(s string) {
		var m map[string]interface{}
		if json.Unmarshal([]byte(s), &m) == nil {
			if a, ok := m["accepted"].(bool); ok && a {
				accepted = true
				return
			}
		}
		var p tracePrediction
		if json.Unmarshal([]byte(s), &p) == nil && p.L > 0 && p.Strict.V && p.Strict.Root && p.Strict.MK && p.Strict.Log {
			// a completed call that agrees with the recording: with the same executions in the
			// same order every branch reaches the same container state; what may still differ
			// between branches is the failure path (which of several doomed dependencies was
			// tried first), so every such prediction is kept as a candidate
			if len(preds[p.L]) < 64 {
				preds[p.L] = append(preds[p.L], &p)
			}
		}
	})
	if terr != nil {
		return false, terr
	}
	if len(st.Errors) > 0 {
		return false, fmt.Errorf("TLC: %s", firstLines(strings.Join(st.Errors, "\n"), 6))
	}
	if !accepted {
		return false, nil
	}
	// compare every observation with the predictions of the explaining order
	op := 0
	for l := 1; l < len(lines); l++ {
		obs := lines[l]
		if obs == nil {
			continue
		}
		explained := false
		for _, p := range preds[l] {
			want := *p.Entry
			want.Snap = p.Snap
			want.Viz = p.Viz
			want.VizErp = p.VizErr
			clean := true
			for _, d := range run.CompareEntry(cc, opt.Dry, op, &want, obs) {
				if d.Kind != "exec.order" && (def == nil || def.claims(d.Kind, d.Detail)) {
					clean = false
					break
				}
			}
			if clean {
				explained = true
				break
			}
		}
		if !explained {
			return false, nil
		}
		op++
	}
	return true, nil
}

package main

import (
	"encoding/json"
	"fmt"
	"os"
	"path/filepath"
	"strings"
	"time"

	"verif/harness/cat"
	"verif/harness/run"
)

// orderExplains reports whether a divergence of this kind can be the effect of nothing but a
// different order in which independent parameters were built.
func orderExplains(kind string) bool {
	for _, p := range []string{"exec.", "root", "verdict.invoke", "args.", "snap.called", "snap.dcalled", "snap.vals", "snap.dvals", "snap.grps", "snap.dgrps", "cb.", "mk", "nest."} {
		if kind == p || strings.HasPrefix(kind, p) {
			return true
		}
	}
	return false
}

// vetFreeOrder decides whether an execution observed on the real code - which differs from the
// strict prediction of the specification - is nevertheless a behaviour the specification allows
// when independent parameters may be built in any order (dig documents the order of
// instantiation as unspecified): the observed execution is validated as a trace by TLC against
// DigTrace with FreeOrder = TRUE, where every step may pick any parameter the properties allow
// and the recording prunes the search. Only if no branch explains the recording is the
// divergence a finding. It never runs while model and code agree.
func vetFreeOrder(c *cat.Catalog, opt cat.Opts, ops []*run.Entry) (bool, error) {
	if len(ops) == 0 {
		return false, nil
	}
	for _, e := range ops {
		if e.Crash != "" {
			return false, nil
		}
	}
	dir, err := newWorkDir("vet")
	if err != nil {
		return false, err
	}
	defer os.RemoveAll(dir)
	cc := c.Clone()
	cc.Opts = []cat.Opts{opt}
	recs := []*run.Recorded{{Cat: cc, Opt: opt, Ops: ops}}
	if _, err := writeCats(dir, []*cat.Catalog{cc}); err != nil {
		return false, err
	}
	mod, _, _ := run.TraceModule(recs)
	os.WriteFile(filepath.Join(dir, "DigTraceData.tla"), []byte(mod), 0o644)
	os.WriteFile(filepath.Join(dir, "MCVet.tla"), []byte("---- MODULE MCVet ----\nEXTENDS DigTrace\n====\n"), 0o644)
	cfg := "SPECIFICATION TraceSpec\nCONSTANTS\n  MaxInv = 1000000\n  MaxFaults = 1000000\n  FaultKinds = {\"err\", \"panic\"}\n  FreeOrder = TRUE\nCHECK_DEADLOCK FALSE\n"
	os.WriteFile(filepath.Join(dir, "MCVet.cfg"), []byte(cfg), 0o644)
	accepted := false
	st, terr := runTLC(dir, "MCVet", 1, 5*time.Minute, nil, func(s string) {
		var m map[string]interface{}
		if json.Unmarshal([]byte(s), &m) == nil {
			if a, ok := m["accepted"].(bool); ok && a {
				accepted = true
			}
		}
	})
	if terr != nil {
		return false, terr
	}
	if len(st.Errors) > 0 {
		return false, fmt.Errorf("TLC: %s", firstLines(strings.Join(st.Errors, "\n"), 6))
	}
	return accepted, nil
}

package main

import (
	"fmt"
	"os"
	"os/exec"
	"path/filepath"
	"sort"
	"strings"
	"time"

	"verif/harness/run"
)

// repoDir is the repository under check.
func repoDir() string {
	if r := os.Getenv("VERIF_REPO"); r != "" {
		return r
	}
	return "/repo"
}

// repoTraceStage runs the repository's own test-suite with the trace hooks switched on
// (build tag verif, /repo/verif_trace.go), converts the recorded event stream of every container
// the tests create into a history over a reconstructed catalog, and validates all of them
// against the specification with TLC (DigTrace): every invariant of Dig.tla is evaluated at
// every step of every one of those executions, and verdict classes, missing keys, the order and
// outcome of every execution of a user function, and the keys cached per scope afterwards are
// compared with the specification's predictions. The tests' own assertions play no role.
func repoTraceStage(timeout time.Duration, maxExamples int) (*TraceStats, *run.RepoTraceStats, error) {
	start := time.Now()
	st := &TraceStats{Name: "repo-tests", Divs: map[string]int{}}
	rs := &run.RepoTraceStats{}
	dir, err := newWorkDir("repotrace")
	if err != nil {
		return nil, nil, err
	}
	defer os.RemoveAll(dir)
	base := filepath.Join(dir, "events")
	cmd := exec.Command("go", "test", "-tags", "verif", "-vet=off", "-count=1", "-timeout", "10m", ".")
	cmd.Dir = repoDir()
	cmd.Env = append(os.Environ(), "VERIF_TRACE_FILE="+base)
	out, _ := cmd.CombinedOutput() // failing tests are not our business; a missing trace is
	files, _ := filepath.Glob(base + ".*")
	if len(files) == 0 {
		return st, rs, fmt.Errorf("the test-suite recorded no trace: %s", firstLines(string(out), 12))
	}
	sort.Strings(files)
	var recs []*run.Recorded
	for _, f := range files {
		r, err := run.LoadRepoTrace(f, rs)
		if err != nil {
			return st, rs, err
		}
		recs = append(recs, r...)
	}
	if len(recs) == 0 {
		return st, rs, fmt.Errorf("no container of the test-suite could be converted (%v)", rs.Skipped)
	}
	st, err = validateRecs(dir, recs, st, start, timeout, maxExamples)
	return st, rs, err
}

func repoTraceSummary(st *TraceStats, rs *run.RepoTraceStats) string {
	var sk []string
	for k, v := range rs.Skipped {
		sk = append(sk, fmt.Sprintf("%d: %s", v, k))
	}
	sort.Strings(sk)
	return fmt.Sprintf("repository test-suite under trace hooks: %d events, %d containers, %d converted, left out {%s}; %d of the %d values user functions received identified by pointer with the execution that produced them\n%s",
		rs.Events, rs.Containers, rs.Converted, strings.Join(sk, "; "), rs.Identified, rs.ArgValues, st.summary())
}

// takeRepoTrace attributes the divergences of the repository-test-suite stage.
func (rep *Report) takeRepoTrace(def *propDef, st *TraceStats, rs *run.RepoTraceStats, err error) {
	if st == nil || rs == nil {
		rep.Infra = append(rep.Infra, fmt.Sprintf("repo-tests stage failed: %v", err))
		return
	}
	rep.Traces = append(rep.Traces, st)
	rep.RepoStats = rs
	fmt.Println(repoTraceSummary(st, rs))
	if err != nil {
		rep.Infra = append(rep.Infra, fmt.Sprintf("repo-tests: %v", err))
	}
	for _, e := range st.TLC.Errors {
		rep.Infra = append(rep.Infra, "repo-tests: TLC: "+e)
	}
	for _, e := range st.HarnessErr {
		rep.Infra = append(rep.Infra, "repo-tests: harness: "+e)
	}
	for _, e := range st.Disagree {
		rep.Infra = append(rep.Infra, "repo-tests: "+e)
	}
	if rs.Converted*2 < rs.Containers {
		rep.Infra = append(rep.Infra, fmt.Sprintf("repo-tests: only %d of %d containers could be converted (%v)", rs.Converted, rs.Containers, rs.Skipped))
	}
	for _, ex := range st.Examples {
		if def.claims(ex.Div.Kind, ex.Div.Detail) {
			if orderExplains(ex.Div.Kind) {
				if ok, _ := vetFreeOrder(def, ex.Rec.Cat, ex.Rec.Opt, ex.Rec.Ops); ok {
					rep.note("order-tolerated."+ex.Div.Kind, ex.Div.Detail)
					continue
				}
			}
			rep.Findings = append(rep.Findings, Finding{Property: rep.Prop, Kind: ex.Div.Kind, Detail: ex.Div.Detail + " [" + ex.Rec.Cat.Note[:strings.Index(ex.Rec.Cat.Note+" of ", " of ")] + "]",
				Stage: "repo-tests", Source: "special", Catalog: ex.Rec.Cat})
		} else {
			rep.note(ex.Div.Kind, ex.Div.Detail)
		}
	}
}

// replayRepoTrace re-runs the stage: the finding reproduces if the same divergence shows again.
func replayRepoTrace(def *propDef, f *Finding) int {
	st, _, err := repoTraceStage(10*time.Minute, 1000)
	if err != nil || st == nil {
		fmt.Println("replay:", err)
		return 2
	}
	for _, ex := range st.Examples {
		if ex.Div.Kind == f.Kind && strings.HasPrefix(f.Detail, ex.Div.Detail) {
			if orderExplains(ex.Div.Kind) {
				if ok, _ := vetFreeOrder(def, ex.Rec.Cat, ex.Rec.Opt, ex.Rec.Ops); ok {
					fmt.Println("allowed under another build order:", ex.Div.Kind, ex.Div.Detail)
					return 0
				}
			}
			fmt.Println("reproduced:", ex.Div.Kind, ex.Div.Detail)
			return 1
		}
	}
	return 0
}

package run

import (
	"fmt"
	"strings"

	"verif/harness/cat"
	"verif/harness/univ"
)

func infoToks(t string, optional bool, name, group string) string {
	var toks []string
	if optional {
		toks = append(toks, "optional")
	}
	if name != "" {
		toks = append(toks, fmt.Sprintf("name = %q", name))
	}
	if group != "" {
		toks = append(toks, fmt.Sprintf("group = %q", group))
	}
	if len(toks) == 0 {
		return t
	}
	return fmt.Sprintf("%v[%v]", t, strings.Join(toks, ", "))
}

// ExpectedInfo renders the flat parameter and result lists of a catalog function the way
// dig.Input / dig.Output print them: one entry per declared dependency and per produced
// value, As interfaces expanded, in declaration order.
func ExpectedInfo(f *cat.Fn) (in, out []string) {
	for _, p := range f.Ps {
		k := univ.ParseKey(p.K)
		t := univ.Type(k.T).String()
		if p.M == "grp" || p.M == "soft" {
			t = "[]" + t
		}
		in = append(in, infoToks(t, p.M == "opt", univ.RealName(k.Name), k.Group))
	}
	for _, r := range f.Rs {
		for _, ks := range r.Ks {
			k := univ.ParseKey(ks)
			t := univ.Type(k.T).String()
			if f.Kind == "dec" && r.M == "grp" {
				t = "[]" + t
			}
			out = append(out, infoToks(t, false, univ.RealName(k.Name), k.Group))
		}
	}
	return in, out
}

package run

import (
	"fmt"
	"strings"
)

// A parser for the DOT language subset dig.Visualize emits (graphviz is not installed):
//   graph     := "digraph" [ID] "{" stmt* "}"
//   stmt      := ID "=" ID | ("graph"|"node"|"edge") attrs | ID attrs? | ID "->" ID attrs?
//              | "subgraph" ID? "{" stmt* "}"      (each optionally followed by ";")
//   attrs     := "[" (ID "=" ID [","|";"])* "]"
//   ID        := bare identifier | number | "quoted string" | <html string with balanced <>>

// DotNode is a node statement.
type DotNode struct {
	ID    string
	Attrs map[string]string
}

// DotEdge is an edge statement.
type DotEdge struct {
	From, To string
	Attrs    map[string]string
}

// DotSub is a subgraph.
type DotSub struct {
	ID    string
	Attrs map[string]string // ID = ID statements
	Nodes []DotNode
	Edges []DotEdge
	Subs  []*DotSub
}

type dotTok struct {
	kind string // id | punct | eof
	text string
	html bool
}

type dotLexer struct {
	s   string
	pos int
}

func (l *dotLexer) next() (dotTok, error) {
	for l.pos < len(l.s) {
		c := l.s[l.pos]
		if c == ' ' || c == '\t' || c == '\n' || c == '\r' {
			l.pos++
			continue
		}
		break
	}
	if l.pos >= len(l.s) {
		return dotTok{kind: "eof"}, nil
	}
	c := l.s[l.pos]
	switch {
	case c == '"':
		var b strings.Builder
		i := l.pos + 1
		for i < len(l.s) {
			if l.s[i] == '\\' && i+1 < len(l.s) {
				if l.s[i+1] == '"' {
					b.WriteByte('"')
				} else {
					b.WriteByte(l.s[i])
					b.WriteByte(l.s[i+1])
				}
				i += 2
				continue
			}
			if l.s[i] == '"' {
				l.pos = i + 1
				return dotTok{kind: "id", text: b.String()}, nil
			}
			b.WriteByte(l.s[i])
			i++
		}
		return dotTok{}, fmt.Errorf("unterminated string at offset %d", l.pos)
	case c == '<':
		depth := 0
		i := l.pos
		for i < len(l.s) {
			if l.s[i] == '<' {
				depth++
			} else if l.s[i] == '>' {
				depth--
				if depth == 0 {
					t := l.s[l.pos+1 : i]
					l.pos = i + 1
					return dotTok{kind: "id", text: t, html: true}, nil
				}
			}
			i++
		}
		return dotTok{}, fmt.Errorf("unbalanced html string at offset %d", l.pos)
	case c == '-' && l.pos+1 < len(l.s) && l.s[l.pos+1] == '>':
		l.pos += 2
		return dotTok{kind: "punct", text: "->"}, nil
	case strings.ContainsRune("{}[];,=", rune(c)):
		l.pos++
		return dotTok{kind: "punct", text: string(c)}, nil
	case c == '_' || c == '.' || c == '-' || (c >= '0' && c <= '9') || (c >= 'a' && c <= 'z') || (c >= 'A' && c <= 'Z') || c >= 0x80:
		i := l.pos
		for i < len(l.s) {
			d := l.s[i]
			if d == '_' || d == '.' || (d >= '0' && d <= '9') || (d >= 'a' && d <= 'z') || (d >= 'A' && d <= 'Z') || d >= 0x80 {
				i++
				continue
			}
			break
		}
		if i == l.pos {
			return dotTok{}, fmt.Errorf("unexpected character %q at offset %d", c, l.pos)
		}
		t := l.s[l.pos:i]
		l.pos = i
		return dotTok{kind: "id", text: t}, nil
	}
	return dotTok{}, fmt.Errorf("unexpected character %q at offset %d", c, l.pos)
}

type dotParser struct {
	lx  *dotLexer
	tok dotTok
}

func (p *dotParser) adv() error {
	t, err := p.lx.next()
	if err != nil {
		return err
	}
	p.tok = t
	return nil
}

func (p *dotParser) isPunct(s string) bool { return p.tok.kind == "punct" && p.tok.text == s }

func (p *dotParser) expectPunct(s string) error {
	if !p.isPunct(s) {
		return fmt.Errorf("expected %q, found %q at offset %d", s, p.tok.text, p.lx.pos)
	}
	return p.adv()
}

func (p *dotParser) attrs() (map[string]string, error) {
	m := map[string]string{}
	for p.isPunct("[") {
		if err := p.adv(); err != nil {
			return nil, err
		}
		for !p.isPunct("]") {
			if p.tok.kind != "id" {
				return nil, fmt.Errorf("expected attribute name, found %q at offset %d", p.tok.text, p.lx.pos)
			}
			k := p.tok.text
			if err := p.adv(); err != nil {
				return nil, err
			}
			if err := p.expectPunct("="); err != nil {
				return nil, err
			}
			if p.tok.kind != "id" {
				return nil, fmt.Errorf("expected attribute value, found %q at offset %d", p.tok.text, p.lx.pos)
			}
			m[k] = p.tok.text
			if err := p.adv(); err != nil {
				return nil, err
			}
			if p.isPunct(",") || p.isPunct(";") {
				if err := p.adv(); err != nil {
					return nil, err
				}
			}
		}
		if err := p.adv(); err != nil {
			return nil, err
		}
	}
	return m, nil
}

func (p *dotParser) stmts(sub *DotSub) error {
	for !p.isPunct("}") {
		if p.tok.kind == "eof" {
			return fmt.Errorf("unexpected end of input inside { }")
		}
		if p.isPunct(";") {
			if err := p.adv(); err != nil {
				return err
			}
			continue
		}
		if p.tok.kind != "id" {
			return fmt.Errorf("unexpected %q at offset %d", p.tok.text, p.lx.pos)
		}
		id := p.tok.text
		bare := !p.tok.html
		if err := p.adv(); err != nil {
			return err
		}
		switch {
		case bare && id == "subgraph":
			s := &DotSub{Attrs: map[string]string{}}
			if p.tok.kind == "id" {
				s.ID = p.tok.text
				if err := p.adv(); err != nil {
					return err
				}
			}
			if err := p.expectPunct("{"); err != nil {
				return err
			}
			if err := p.stmts(s); err != nil {
				return err
			}
			if err := p.expectPunct("}"); err != nil {
				return err
			}
			sub.Subs = append(sub.Subs, s)
		case p.isPunct("="):
			if err := p.adv(); err != nil {
				return err
			}
			if p.tok.kind != "id" {
				return fmt.Errorf("expected value after %s =", id)
			}
			sub.Attrs[id] = p.tok.text
			if err := p.adv(); err != nil {
				return err
			}
		case p.isPunct("->"):
			if err := p.adv(); err != nil {
				return err
			}
			if p.tok.kind != "id" {
				return fmt.Errorf("expected edge target after %s ->", id)
			}
			to := p.tok.text
			if err := p.adv(); err != nil {
				return err
			}
			a, err := p.attrs()
			if err != nil {
				return err
			}
			sub.Edges = append(sub.Edges, DotEdge{From: id, To: to, Attrs: a})
		default:
			a, err := p.attrs()
			if err != nil {
				return err
			}
			if bare && (id == "graph" || id == "node" || id == "edge") {
				for k, v := range a {
					sub.Attrs[id+"."+k] = v
				}
			} else {
				sub.Nodes = append(sub.Nodes, DotNode{ID: id, Attrs: a})
			}
		}
	}
	return nil
}

// ParseDot parses a DOT document; an error means the text is not well-formed.
func ParseDot(s string) (*DotSub, error) {
	p := &dotParser{lx: &dotLexer{s: s}}
	if err := p.adv(); err != nil {
		return nil, err
	}
	if p.tok.kind != "id" || (p.tok.text != "digraph" && p.tok.text != "graph") {
		return nil, fmt.Errorf("expected digraph, found %q", p.tok.text)
	}
	if err := p.adv(); err != nil {
		return nil, err
	}
	g := &DotSub{Attrs: map[string]string{}}
	if p.tok.kind == "id" {
		g.ID = p.tok.text
		if err := p.adv(); err != nil {
			return nil, err
		}
	}
	if err := p.expectPunct("{"); err != nil {
		return nil, err
	}
	if err := p.stmts(g); err != nil {
		return nil, err
	}
	if err := p.expectPunct("}"); err != nil {
		return nil, err
	}
	if p.tok.kind != "eof" {
		return nil, fmt.Errorf("trailing input after the graph at offset %d", p.lx.pos)
	}
	return g, nil
}

package run

import (
	"fmt"
	"sort"
	"strings"

	"verif/harness/cat"
	"verif/harness/univ"
)

// VizEdge, VizCluster, VizGroup, VizPic: the picture the specification predicts (spec/Viz.tla).
type VizEdge struct {
	K      string `json:"k"`
	Dashed bool   `json:"dashed"`
}

type VizCluster struct {
	F   string    `json:"f"`
	Rs  []string  `json:"rs"`
	Ps  []VizEdge `json:"ps"`
	Gps []string  `json:"gps"`
}

type VizGroup struct {
	K string `json:"k"`
	N int    `json:"n"`
}

type VizPic struct {
	Clusters []VizCluster `json:"clusters"`
	Groups   []VizGroup   `json:"groups"`
}

type VizKF struct {
	K string `json:"k"`
	F string `json:"f"`
}

type VizCtor struct {
	F    string `json:"f"`
	Root bool   `json:"root"`
}

// VizErrPic is the predicted failure picture.
type VizErrPic struct {
	Can     bool      `json:"can"`
	InClaim bool      `json:"inclaim"`
	Root    []VizKF   `json:"root"`
	Trans   []VizKF   `json:"trans"`
	Ctors   []VizCtor `json:"ctors"`
	// what stays after pruning: kept clusters with their remaining edges, failed groups with
	// their remaining members
	Clusters []VizCluster `json:"clusters"`
	Groups   []VizGroup   `json:"groups"`
}

var typeByString = func() map[string]string {
	m := map[string]string{}
	for _, n := range []string{"T0", "T1", "T2", "T3", "T4", "T5", "T6", "T7", "V0", "V1", "I0", "I1", "I2", "IX"} {
		m[univ.Type(n).String()] = n
	}
	return m
}()

// keyOfLabel maps a node id of the picture to a key of the harness vocabulary.
func keyOfLabel(id string) (key string, groupNode bool, ok bool) {
	if strings.HasPrefix(id, "[type=") && strings.HasSuffix(id, "]") {
		body := id[len("[type=") : len(id)-1]
		i := strings.LastIndex(body, " group=")
		if i < 0 {
			return "", true, false
		}
		t, found := typeByString[body[:i]]
		if !found {
			return "", true, false
		}
		return t + "@" + body[i+len(" group="):], true, true
	}
	i := strings.IndexByte(id, '[')
	if i < 0 {
		t, found := typeByString[id]
		return t, false, found
	}
	// a slice type starts with '[' too
	if i == 0 {
		return "", false, false
	}
	t, found := typeByString[id[:i]]
	if !found {
		return "", false, false
	}
	rest := id[i+1:]
	switch {
	case strings.HasPrefix(rest, "name="):
		return t + "/" + univ.ModelName(strings.TrimSuffix(rest[len("name="):], "]")), false, true
	case strings.HasPrefix(rest, "group="):
		j := strings.LastIndexByte(rest, ']')
		if j < 0 {
			return "", false, false
		}
		return t + "@" + rest[len("group="):j], false, true
	}
	return "", false, false
}

// ObsCluster is one cluster of the observed picture.
type ObsCluster struct {
	Results []string
	Params  []VizEdge
	Groups  []string
	Color   string
	Label   string // constructor name
}

// ObsPic is the observed picture.
type ObsPic struct {
	Clusters []ObsCluster
	Groups   map[string]int    // group key -> number of member links
	GroupCol map[string]string // group key -> colour
	Red      []string          // keys of top-level nodes coloured red
	Orange   []string
	Problems []string // structural problems of the document itself
	Dangling []string // group membership links to a result node that is in no cluster
}

// ObservePic parses a DOT document produced by dig.Visualize.
func ObservePic(dot string) (*ObsPic, error) {
	g, err := ParseDot(dot)
	if err != nil {
		return nil, err
	}
	o := &ObsPic{Groups: map[string]int{}, GroupCol: map[string]string{}}
	ctorCluster := map[string]int{}
	inCluster := map[string]bool{} // ids of the result nodes held by clusters
	for _, s := range g.Subs {
		if !strings.HasPrefix(s.ID, "cluster_") {
			o.Problems = append(o.Problems, "subgraph that is not a cluster: "+s.ID)
			continue
		}
		idx := strings.TrimPrefix(s.ID, "cluster_")
		c := ObsCluster{Color: s.Attrs["color"]}
		seenCtor := false
		for _, n := range s.Nodes {
			if n.ID == "constructor_"+idx {
				seenCtor = true
				c.Label = n.Attrs["label"]
				continue
			}
			k, grp, ok := keyOfLabel(n.ID)
			if !ok || grp {
				o.Problems = append(o.Problems, fmt.Sprintf("cluster %s holds a node that is not a result: %q", idx, n.ID))
				continue
			}
			c.Results = append(c.Results, k)
			inCluster[n.ID] = true
		}
		if !seenCtor {
			o.Problems = append(o.Problems, "cluster "+idx+" has no constructor node")
		}
		if len(s.Edges) > 0 || len(s.Subs) > 0 {
			o.Problems = append(o.Problems, "cluster "+idx+" contains edges or subgraphs")
		}
		ctorCluster["constructor_"+idx] = len(o.Clusters)
		o.Clusters = append(o.Clusters, c)
	}
	for _, n := range g.Nodes {
		k, grp, ok := keyOfLabel(n.ID)
		if !ok {
			o.Problems = append(o.Problems, fmt.Sprintf("top-level node with an unreadable id %q", n.ID))
			continue
		}
		if grp {
			if _, dup := o.Groups[k]; dup {
				o.Problems = append(o.Problems, "group node declared twice: "+k)
			}
			o.Groups[k] += 0
			o.GroupCol[k] = n.Attrs["color"]
			if n.Attrs["shape"] != "diamond" {
				o.Problems = append(o.Problems, "group node without diamond shape: "+k)
			}
			continue
		}
		switch n.Attrs["color"] {
		case "red":
			o.Red = append(o.Red, k)
		case "orange":
			o.Orange = append(o.Orange, k)
		default:
			o.Problems = append(o.Problems, fmt.Sprintf("top-level node %q that is neither a group nor a failure mark", n.ID))
		}
	}
	for _, e := range g.Edges {
		if ci, ok := ctorCluster[e.From]; ok {
			k, grp, kok := keyOfLabel(e.To)
			if !kok {
				o.Problems = append(o.Problems, fmt.Sprintf("edge to an unreadable id %q", e.To))
				continue
			}
			want := "cluster_" + strings.TrimPrefix(e.From, "constructor_")
			if e.Attrs["ltail"] != want {
				o.Problems = append(o.Problems, fmt.Sprintf("edge from %s has ltail %q", e.From, e.Attrs["ltail"]))
			}
			if grp {
				o.Clusters[ci].Groups = append(o.Clusters[ci].Groups, k)
			} else {
				o.Clusters[ci].Params = append(o.Clusters[ci].Params, VizEdge{K: k, Dashed: e.Attrs["style"] == "dashed"})
			}
			continue
		}
		fk, fgrp, fok := keyOfLabel(e.From)
		tk, tgrp, tok := keyOfLabel(e.To)
		if !fok || !fgrp || !tok || tgrp || fk != tk {
			o.Problems = append(o.Problems, fmt.Sprintf("edge %q -> %q is neither a dependency nor a group membership", e.From, e.To))
			continue
		}
		if _, ok := o.Groups[fk]; !ok {
			o.Problems = append(o.Problems, "membership edge of an undeclared group "+fk)
		}
		if !inCluster[e.To] {
			o.Dangling = append(o.Dangling, fmt.Sprintf("group %s is linked to %q, which no cluster holds", fk, e.To))
		}
		o.Groups[fk]++
	}
	return o, nil
}

func edgeStr(es []VizEdge) string {
	var ss []string
	for _, e := range es {
		if e.Dashed {
			ss = append(ss, e.K+"?")
		} else {
			ss = append(ss, e.K)
		}
	}
	return strings.Join(ss, ",")
}

func sortedJoin(ss []string) string {
	c := append([]string(nil), ss...)
	sort.Strings(c)
	return strings.Join(c, ",")
}

// setJoin renders a list as a set (duplicates dropped).
func setJoin(ss []string) string {
	m := map[string]bool{}
	var c []string
	for _, s := range ss {
		if !m[s] {
			m[s] = true
			c = append(c, s)
		}
	}
	sort.Strings(c)
	return strings.Join(c, ",")
}

// CompareViz compares the plain picture with the prediction (no function identity needed:
// clusters are compared as a multiset of (results, dependencies, group dependencies)).
func CompareViz(idx int, ctx string, want *VizPic, dot string) []Divergence {
	var ds []Divergence
	add := func(kind, detail string) {
		ds = append(ds, Divergence{Kind: kind, Op: idx, Detail: ctx + ": " + detail})
	}
	o, err := ObservePic(dot)
	if err != nil {
		add("viz.syntax", "Visualize output is not well-formed DOT: "+err.Error())
		return ds
	}
	for _, p := range o.Problems {
		add("viz.structure", p)
	}
	for _, p := range o.Dangling {
		add("viz.structure", p)
	}
	var w, g []string
	for _, c := range want.Clusters {
		w = append(w, sortedJoin(c.Rs)+" <- "+edgeStr(c.Ps)+" | "+strings.Join(c.Gps, ","))
	}
	for _, c := range o.Clusters {
		g = append(g, sortedJoin(c.Results)+" <- "+edgeStr(c.Params)+" | "+strings.Join(c.Groups, ","))
		if c.Color != "" {
			add("viz.colour", "a cluster is coloured in a picture without an error")
		}
	}
	sort.Strings(w)
	sort.Strings(g)
	if strings.Join(w, " ; ") != strings.Join(g, " ; ") {
		add("viz.clusters", fmt.Sprintf("clusters (results <- dependencies | groups) want [%s] got [%s]", strings.Join(w, " ; "), strings.Join(g, " ; ")))
	}
	var wg, gg []string
	for _, x := range want.Groups {
		wg = append(wg, fmt.Sprintf("%s:%d", x.K, x.N))
	}
	for k, n := range o.Groups {
		gg = append(gg, fmt.Sprintf("%s:%d", k, n))
	}
	sort.Strings(wg)
	sort.Strings(gg)
	if strings.Join(wg, " ") != strings.Join(gg, " ") {
		add("viz.groups", fmt.Sprintf("group nodes (key:members) want [%s] got [%s]", strings.Join(wg, " "), strings.Join(gg, " ")))
	}
	if len(o.Red)+len(o.Orange) > 0 {
		add("viz.colour", "failure marks in a picture without an error")
	}
	return ds
}

// CompareVizErr compares the failure picture. named: the functions of the catalog are distinct
// declared functions, so clusters can be identified (otherwise only the marks that do not
// depend on constructor identity are compared).
func CompareVizErr(c *cat.Catalog, idx int, ctx string, want *VizErrPic, canViz bool, dot string, named bool) []Divergence {
	var ds []Divergence
	add := func(kind, detail string) {
		ds = append(ds, Divergence{Kind: kind, Op: idx, Detail: ctx + ": " + detail})
	}
	if !want.InClaim {
		return nil
	}
	if want.Can != canViz {
		add("viz.can", fmt.Sprintf("CanVisualizeError want %v got %v", want.Can, canViz))
	}
	o, err := ObservePic(dot)
	if err != nil {
		add("viz.syntax", "Visualize(VisualizeError) output is not well-formed DOT: "+err.Error())
		return ds
	}
	for _, p := range o.Problems {
		add("viz.structure", "error picture: "+p)
	}
	for _, p := range o.Dangling {
		add("viz.structure", "error picture: "+p)
	}
	if !want.Can {
		return ds
	}
	// what stays after pruning, compared as multisets. Pruning goes by constructor identity, so
	// this needs distinct declared functions (reflect.MakeFunc values share one code pointer).
	if named {
		var w, g []string
		for _, c := range want.Clusters {
			w = append(w, sortedJoin(c.Rs)+" <- "+edgeStr(c.Ps)+" | "+strings.Join(c.Gps, ","))
		}
		for _, c := range o.Clusters {
			g = append(g, sortedJoin(c.Results)+" <- "+edgeStr(c.Params)+" | "+strings.Join(c.Groups, ","))
		}
		sort.Strings(w)
		sort.Strings(g)
		if strings.Join(w, " ; ") != strings.Join(g, " ; ") {
			add("viz.pruned", fmt.Sprintf("error picture: clusters (results <- dependencies | groups) want [%s] got [%s]", strings.Join(w, " ; "), strings.Join(g, " ; ")))
		}
		var wg, gg []string
		for _, x := range want.Groups {
			wg = append(wg, fmt.Sprintf("%s:%d", x.K, x.N))
		}
		for k, n := range o.Groups {
			gg = append(gg, fmt.Sprintf("%s:%d", k, n))
		}
		sort.Strings(wg)
		sort.Strings(gg)
		if strings.Join(wg, " ") != strings.Join(gg, " ") {
			add("viz.pruned", fmt.Sprintf("error picture: group nodes (key:members) want [%s] got [%s]", strings.Join(wg, " "), strings.Join(gg, " ")))
		}
	}
	// marks that do not depend on constructor identity: single-key entries
	grouped := false
	var wr, wt []string
	for _, x := range want.Root {
		if strings.Contains(x.K, "@") {
			grouped = true
		}
		wr = append(wr, x.K)
	}
	for _, x := range want.Trans {
		if strings.Contains(x.K, "@") {
			grouped = true
		}
		wt = append(wt, x.K)
	}
	if !grouped || named {
		if setJoin(wr) != setJoin(o.Red) {
			add("viz.root", fmt.Sprintf("root-cause nodes want [%s] got [%s]", setJoin(wr), setJoin(o.Red)))
		}
		if setJoin(wt) != setJoin(o.Orange) {
			add("viz.trans", fmt.Sprintf("transitive-failure nodes want [%s] got [%s]", setJoin(wt), setJoin(o.Orange)))
		}
	}
	if named {
		var wc, gc []string
		for _, x := range want.Ctors {
			col := "orange"
			if x.Root {
				col = "red"
			}
			var rs []string
			for _, r := range c.Fns[x.F].Rs {
				rs = append(rs, r.Ks...)
			}
			wc = append(wc, sortedJoin(rs)+"="+col)
		}
		for _, x := range o.Clusters {
			gc = append(gc, sortedJoin(x.Results)+"="+x.Color)
		}
		if sortedJoin(wc) != sortedJoin(gc) {
			add("viz.ctors", fmt.Sprintf("clusters kept in the error picture (results=colour) want [%s] got [%s]", sortedJoin(wc), sortedJoin(gc)))
		}
	}
	return ds
}

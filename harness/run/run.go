// Package run executes a history of API operations against a real dig container built from
// /repo's working tree and records, per operation, everything the specification predicts:
// verdict class, root cause, the exec log with argument provenance, callbacks, and the
// projected container state.
package run

import (
	"bytes"
	"errors"
	"fmt"
	"reflect"
	"sort"
	"strings"
	"time"

	"go.uber.org/dig"

	"verif/harness/cat"
	"verif/harness/lib"
	"verif/harness/univ"
)

// Event is one element of the per-call log.
type Event struct {
	T    string        `json:"t"` // exec | cb
	F    string        `json:"f"`
	N    int           `json:"n"`
	O    string        `json:"o,omitempty"` // exec: ok | err | panic
	View string        `json:"view,omitempty"`
	Args [][]univ.Prov `json:"args,omitempty"`
	E    string        `json:"e,omitempty"` // cb: nil | own | panic | any | other
	Rt   int           `json:"rt,omitempty"`
	Name string        `json:"name,omitempty"` // cb: CallbackInfo.Name (observed only)
	Xs   []string      `json:"xs,omitempty"`
	Pre  []string      `json:"pre,omitempty"`
}

// Cell is one cached entry.
type Cell struct {
	S string    `json:"s"`
	K string    `json:"k"`
	V univ.Prov `json:"v"`
}

// GCell is one decorated group.
type GCell struct {
	S string      `json:"s"`
	K string      `json:"k"`
	V []univ.Prov `json:"v"`
}

// Snap is the projected abstract state of a container.
type Snap struct {
	Created []string `json:"created"`
	Reg     []string `json:"reg"`
	Decs    []string `json:"decs"`
	Vals    []Cell   `json:"vals"`
	DVals   []Cell   `json:"dvals"`
	Grps    []Cell   `json:"grps"`
	DGrps   []GCell  `json:"dgrps"`
	Called  []string `json:"called"`
	DCalled []string `json:"dcalled"`
	// observed only
	Foreign []string `json:"foreign,omitempty"` // things in the real state that map to nothing
}

// Info is what a Fill*Info option reported.
type Info struct {
	Filled  bool     `json:"filled"`
	ID      int      `json:"id"`
	Inputs  []string `json:"inputs"`
	Outputs []string `json:"outputs"`
}

// Entry is one completed API operation with its observations (or predictions).
type Entry struct {
	Op  string   `json:"op"`
	F   string   `json:"f"`
	S   string   `json:"s"`
	V   string   `json:"v"`
	RF  string   `json:"rf"`
	RN  int      `json:"rn"`
	MK  []string `json:"mk"`
	Log []Event  `json:"log"`

	// predicted only
	Viz    *VizPic    `json:"viz,omitempty"`
	VizErp *VizErrPic `json:"vizerrpic,omitempty"`

	// observed only
	Crash    string `json:"crash,omitempty"`    // a panic that was not injected escaped the call
	ErrText  string `json:"errtext,omitempty"`  // for diagnostics only, never compared
	Class    string `json:"class,omitempty"`    // error classification details (C13)
	Info     *Info  `json:"info,omitempty"`     // Fill*Info result
	VizErr   string `json:"vizerr,omitempty"`   // Visualize / String misbehaved after this op
	Dot      string `json:"dot,omitempty"`      // Visualize output after this op
	DotErr   string `json:"doterr,omitempty"`   // Visualize(VisualizeError(err)) output for the error of this op
	Snap     *Snap  `json:"snap,omitempty"`     // state after the op
	SnapEq   bool   `json:"snapeq"`             // rejected registration: raw state before == after
	SnapDiff string `json:"snapdiff,omitempty"` // what differs otherwise
	CanViz   bool   `json:"canviz,omitempty"`
	// NoArgs: the values user functions received and the cached values were not observed (traces
	// of the repository's own tests): only keys, counts, order and outcomes are compared
	NoArgs bool `json:"noargs,omitempty"`
}

type planKey struct {
	F string
	N int
}

// Runner drives one real container tree.
type Runner struct {
	Cat  *cat.Catalog
	Opts cat.Opts
	Plan map[planKey]string // outcome of execution n of function f ("ok" if absent)

	c         *dig.Container
	scopes    map[string]*dig.Scope
	advance   func(time.Duration)
	execs     map[string]int
	log       []Event
	inReg     bool
	regExec   bool
	fnOf      map[uintptr]string // closure id -> function id
	lastErr   error
	NoSnap    bool
	NoViz     bool
	infos     map[string]*Info
	sentinel  map[planKey]*ExecErr
	cbs       map[string]int
	libBodies map[string]func([]reflect.Value) []reflect.Value
	libOf     map[string]string // catalog function -> library function it is bound to
	// RandPlan, when set, decides outcomes not in Plan (recorded into Plan)
	RandPlan func(f string, n int) string
}

type api interface {
	Provide(interface{}, ...dig.ProvideOption) error
	Decorate(interface{}, ...dig.DecorateOption) error
	Invoke(interface{}, ...dig.InvokeOption) error
	Scope(string, ...dig.ScopeOption) *dig.Scope
}

// New creates a runner with a fresh container.
func New(c *cat.Catalog, o cat.Opts) *Runner {
	r := &Runner{Cat: c, Opts: o, Plan: map[planKey]string{}, scopes: map[string]*dig.Scope{},
		execs: map[string]int{}, fnOf: map[uintptr]string{}, infos: map[string]*Info{},
		sentinel: map[planKey]*ExecErr{}, cbs: map[string]int{}, libOf: map[string]string{}}
	clk, adv := dig.VerifMockClock()
	r.advance = adv
	opts := []dig.Option{clk}
	if o.Defer {
		opts = append(opts, dig.DeferAcyclicVerification())
	}
	if o.Recover {
		opts = append(opts, dig.RecoverFromPanics())
	}
	if o.Dry {
		opts = append(opts, dig.DryRun(false), dig.DryRun(true))
	} else {
		// options apply in order: the last DryRun wins
		opts = append(opts, dig.DryRun(true), dig.DryRun(false))
	}
	r.c = dig.New(opts...)
	return r
}

// scopeRealName is the name scope s is created under. In half of the catalogs every scope gets
// the same name: a name identifies nothing, siblings that share one are still two scopes.
func (r *Runner) scopeRealName(s string) string {
	if len(r.Cat.Note)%2 == 0 {
		return "sub"
	}
	return s
}

// SetPlan records the planned outcome of execution n of f.
func (r *Runner) SetPlan(f string, n int, o string) { r.Plan[planKey{f, n}] = o }

func (r *Runner) api(s string) (api, error) {
	if s == "r" {
		return r.c, nil
	}
	sc, ok := r.scopes[s]
	if !ok {
		return nil, fmt.Errorf("scope %s does not exist", s)
	}
	return sc, nil
}

// body is the MakeFunc body of catalog function id.
func (r *Runner) body(id string, l *layout) func([]reflect.Value) []reflect.Value {
	return func(args []reflect.Value) []reflect.Value {
		if r.inReg {
			r.regExec = true
		}
		r.execs[id]++
		n := r.execs[id]
		out, ok := r.Plan[planKey{id, n}]
		if !ok {
			out = "ok"
			if r.RandPlan != nil {
				out = r.RandPlan(id, n)
				if out != "ok" {
					r.Plan[planKey{id, n}] = out
				}
			}
		}
		if out == "err" && !l.hasErr {
			out = "ok"
		}
		ev := Event{T: "exec", F: id, N: n, O: out, Args: l.decode(args)}
		if len(l.fn.Nest) > 0 {
			// the body calls Invoke on the container again before it returns; its own event is
			// logged when it ends (a panic of a nested call passes through without one)
			for _, nc := range l.fn.Nest {
				r.log = append(r.log, r.nested(nc))
			}
		}
		r.log = append(r.log, ev)
		r.advance(time.Duration(l.fn.Dur) * unit)
		if out == "panic" {
			panic(panicValue(id, n))
		}
		res := l.make(id, n, false)
		if out == "err" {
			e := &ExecErr{id, n}
			r.sentinel[planKey{id, n}] = e
			res[l.errIndex(len(res))] = reflect.ValueOf(e).Convert(errType)
		}
		return res
	}
}

// nested makes one re-entrant Invoke from inside a running user function and returns the event
// describing how it ended. A panic leaving it (container without RecoverFromPanics) is not
// caught here: it passes through the calling body like through any user code.
func (r *Runner) nested(nc cat.NestCall) Event {
	ev := Event{T: "nest", F: nc.I, View: nc.S}
	a, err := r.api(nc.S)
	if err != nil {
		ev.O = "reject"
		return ev
	}
	val, _, err := r.build(nc.I)
	if err != nil {
		ev.O = "reject"
		return ev
	}
	n0 := r.execs[nc.I]
	callErr := a.Invoke(val)
	var e Entry
	r.classify(&e, callErr, func() *ExecErr {
		if r.execs[nc.I] > n0 {
			return r.sentinel[planKey{nc.I, r.execs[nc.I]}]
		}
		return nil
	})
	ev.O = normVerdict(e.V)
	ev.E, ev.N = e.RF, e.RN
	if e.Class != "" && e.Class != "rootdig" && e.Class != "rootdig,cycle" && e.Class != "panicerr" {
		ev.Name = e.Class // classification facts of the nested error (C13)
	}
	return ev
}

func (r *Runner) callback(id string) dig.Callback {
	return func(ci dig.CallbackInfo) {
		n := r.execs[id]
		if r.Opts.Dry {
			// the function body never runs in a dry container: count the callbacks instead
			r.cbs[id]++
			n = r.cbs[id]
		}
		e := "other"
		var pe dig.PanicError
		var xe *ExecErr
		switch {
		case ci.Error == nil:
			e = "nil"
		case errors.As(ci.Error, &pe):
			if pv, ok := asPanicVal(pe.Panic); ok && pv == (PanicVal{id, n}) && pe.Panic == panicValue(id, n) {
				e = "panic"
			}
		case errors.As(dig.RootCause(ci.Error), &xe):
			if xe == r.sentinel[planKey{id, n}] && errors.Is(ci.Error, xe) {
				e = "own"
			}
		}
		r.log = append(r.log, Event{T: "cb", F: id, N: n, E: e, Rt: int(ci.Runtime / unit), Name: ci.Name})
	}
}

// Build returns the Go value standing for catalog function id, and its Provide options.
func (r *Runner) build(id string) (fn interface{}, l *layout, err error) {
	f := r.Cat.Fns[id]
	if f.Inv != "" {
		return r.buildInvalid(id)
	}
	if f.Enc.Lib != "" {
		return r.buildLib(id)
	}
	l, err = newLayout(f)
	if err != nil {
		return nil, nil, err
	}
	v := reflect.MakeFunc(l.funcType(), r.body(id, l))
	return v.Interface(), l, nil
}

func keyString(k dig.VerifKey, sliceKeyed bool) string {
	t := k.Type
	if sliceKeyed && t != nil && t.Kind() == reflect.Slice {
		t = t.Elem()
	}
	n := univ.TypeName(t)
	if n == "" {
		n = "?" + fmt.Sprint(t)
	}
	return univ.Key{T: n, Name: univ.ModelName(k.Name), Group: k.Group}.String()
}

// scopeName maps a *dig.Scope to the catalog's scope id.
func (r *Runner) scopeName(s *dig.Scope, st []dig.VerifScopeState) string {
	for id, sc := range r.scopes {
		if sc == s {
			return id
		}
	}
	return "r"
}

// snapshot projects the real container state onto the abstract one.
func (r *Runner) snapshot() *Snap {
	st := dig.VerifSnapshot(r.c)
	sn := &Snap{}
	calledSet := map[string]bool{}
	dcalled := map[string]bool{}
	decs := map[string]bool{}
	for _, s := range st {
		sid := "r"
		if s.Parent != nil {
			sid = r.scopeName(s.Scope, st)
		}
		sn.Created = append(sn.Created, sid)
		nodeID := map[uintptr]string{}
		for _, n := range s.Nodes {
			id, ok := r.fnOf[closureID(n.Ctor)]
			if !ok {
				sn.Foreign = append(sn.Foreign, fmt.Sprintf("node in %s with unknown function", sid))
				continue
			}
			nodeID[n.ID] = id
			sn.Reg = append(sn.Reg, id)
			if n.Called {
				calledSet[id] = true
			}
			if n.OnStack {
				sn.Foreign = append(sn.Foreign, fmt.Sprintf("constructor %s still on stack between calls", id))
			}
		}
		// providers must be exactly the accepted nodes' keys
		for k, ids := range s.Providers {
			ks := keyString(k, false)
			for _, nid := range ids {
				id, ok := nodeID[nid]
				if !ok {
					sn.Foreign = append(sn.Foreign, fmt.Sprintf("provider of %s in %s is not an accepted constructor", ks, sid))
					continue
				}
				found := false
				for _, res := range r.Cat.Fns[id].Rs {
					for _, rk := range res.Ks {
						if rk == ks {
							found = true
						}
					}
				}
				if !found {
					sn.Foreign = append(sn.Foreign, fmt.Sprintf("%s registered in %s for key %s it does not declare", id, sid, ks))
				}
			}
		}
		for _, n := range s.Nodes {
			id, ok := r.fnOf[closureID(n.Ctor)]
			if !ok {
				continue
			}
			for _, res := range r.Cat.Fns[id].Rs {
				for _, rk := range res.Ks {
					k := univ.ParseKey(rk)
					ok := false
					for _, nid := range s.Providers[dig.VerifKey{Type: univ.Type(k.T), Name: univ.RealName(k.Name), Group: k.Group}] {
						if nid == n.ID {
							ok = true
						}
					}
					if !ok {
						sn.Foreign = append(sn.Foreign, fmt.Sprintf("%s in %s not registered for its key %s", id, sid, rk))
					}
				}
			}
		}
		for k, d := range s.Decorators {
			id, ok := r.fnOf[closureID(d.Dcor)]
			if !ok {
				sn.Foreign = append(sn.Foreign, fmt.Sprintf("decorator of %s in %s with unknown function", keyString(k, false), sid))
				continue
			}
			decs[id] = true
			if d.State == 2 {
				dcalled[id] = true
			}
			if d.State == 1 {
				sn.Foreign = append(sn.Foreign, fmt.Sprintf("decorator %s still on stack between calls", id))
			}
			ks := keyString(k, false)
			found := false
			for _, res := range r.Cat.Fns[id].Rs {
				for _, rk := range res.Ks {
					if rk == ks {
						found = true
					}
				}
			}
			if !found {
				sn.Foreign = append(sn.Foreign, fmt.Sprintf("decorator %s registered for key %s it does not declare", id, ks))
			}
		}
		for k, v := range s.Values {
			sn.Vals = append(sn.Vals, Cell{sid, keyString(k, false), r.provOrDry(v)})
		}
		for k, v := range s.DecoratedValues {
			sn.DVals = append(sn.DVals, Cell{sid, keyString(k, false), r.provOrDry(v)})
		}
		for k, vs := range s.Groups {
			for _, v := range vs {
				sn.Grps = append(sn.Grps, Cell{sid, keyString(k, false), r.provOrDry(v)})
			}
		}
		for k, v := range s.DecoratedGroups {
			g := GCell{S: sid, K: keyString(k, true)}
			for i := 0; i < v.Len(); i++ {
				g.V = append(g.V, r.provOrDry(v.Index(i)))
			}
			sn.DGrps = append(sn.DGrps, g)
		}
	}
	for id := range calledSet {
		sn.Called = append(sn.Called, id)
	}
	for id := range dcalled {
		sn.DCalled = append(sn.DCalled, id)
	}
	for id := range decs {
		sn.Decs = append(sn.Decs, id)
	}
	sn.Normalize()
	return sn
}

func (r *Runner) provOrDry(v reflect.Value) univ.Prov { return univ.ProvOf(v) }

// Normalize sorts every unordered part.
func (s *Snap) Normalize() {
	sort.Strings(s.Created)
	sort.Strings(s.Decs)
	sort.Strings(s.Called)
	sort.Strings(s.DCalled)
	sort.Strings(s.Foreign)
	cl := func(c []Cell) {
		sort.Slice(c, func(i, j int) bool {
			if c[i].S != c[j].S {
				return c[i].S < c[j].S
			}
			if c[i].K != c[j].K {
				return c[i].K < c[j].K
			}
			return c[i].V.String() < c[j].V.String()
		})
	}
	cl(s.Vals)
	cl(s.DVals)
	cl(s.Grps)
	for i := range s.DGrps {
		v := s.DGrps[i].V
		sort.Slice(v, func(a, b int) bool { return v[a].String() < v[b].String() })
	}
	sort.Slice(s.DGrps, func(i, j int) bool {
		if s.DGrps[i].S != s.DGrps[j].S {
			return s.DGrps[i].S < s.DGrps[j].S
		}
		return s.DGrps[i].K < s.DGrps[j].K
	})
}

// rawState renders the real state for before/after comparison around rejected registrations
// (real versus real: needs no model). Graph sizes and verified flags are left out: they are
// not observable through the API.
func (r *Runner) rawState() string {
	var b strings.Builder
	for _, s := range dig.VerifSnapshot(r.c) {
		fmt.Fprintf(&b, "scope %p nodes[", s.Scope)
		for _, n := range s.Nodes {
			fmt.Fprintf(&b, "%x:%v ", n.ID, n.Called)
		}
		b.WriteString("] prov[")
		var lines []string
		for k, ids := range s.Providers {
			lines = append(lines, fmt.Sprintf("%s=%x", keyString(k, false), ids))
		}
		for k, d := range s.Decorators {
			lines = append(lines, fmt.Sprintf("D %s=%x/%d", keyString(k, false), d.ID, d.State))
		}
		for k, v := range s.Values {
			lines = append(lines, fmt.Sprintf("V %s=%v", keyString(k, false), univ.ProvOf(v)))
		}
		for k, v := range s.DecoratedValues {
			lines = append(lines, fmt.Sprintf("DV %s=%v", keyString(k, false), univ.ProvOf(v)))
		}
		for k, vs := range s.Groups {
			lines = append(lines, fmt.Sprintf("G %s=%d", keyString(k, false), len(vs)))
		}
		for k, v := range s.DecoratedGroups {
			lines = append(lines, fmt.Sprintf("DG %s=%d", keyString(k, true), v.Len()))
		}
		sort.Strings(lines)
		b.WriteString(strings.Join(lines, ";"))
		b.WriteString("]\n")
	}
	return b.String()
}

// classify maps an error of an API call to the model's verdict vocabulary using the public
// API only (plus the missing-keys hook), and collects the C13 classification facts.
func (r *Runner) classify(e *Entry, err error, invokedSentinel func() *ExecErr) {
	if err == nil {
		e.V = "ok"
		return
	}
	e.ErrText = err.Error()
	root := dig.RootCause(err)
	var de dig.Error
	rootIsDig := errors.As(root, &de)
	isCycle := dig.IsCycleDetected(err)
	var pe dig.PanicError
	var xe *ExecErr
	facts := []string{}
	if rootIsDig {
		facts = append(facts, "rootdig")
	}
	if isCycle {
		facts = append(facts, "cycle")
	}
	switch {
	case errors.As(err, &pe):
		facts = append(facts, "panicerr")
		e.V = "panic"
		if pv, ok := asPanicVal(pe.Panic); ok && pe.Panic == panicValue(pv.F, pv.N) {
			e.RF, e.RN = pv.F, pv.N
		} else {
			e.V = "foreignpanic"
		}
		if _, ok := root.(dig.PanicError); !ok {
			facts = append(facts, "panic-not-root")
		}
	case errors.As(err, &xe):
		e.RF, e.RN = xe.F, xe.N
		e.V = "fail"
		if root != error(xe) {
			facts = append(facts, "sentinel-not-root")
		}
		if !errors.Is(err, xe) {
			facts = append(facts, "sentinel-not-is")
		}
		if s := invokedSentinel(); s != nil && xe == s {
			e.V = "invokeerr"
			if err != error(xe) {
				facts = append(facts, "invokeerr-wrapped")
			}
		}
	case isCycle:
		e.V = "cycle"
	default:
		keys, _ := dig.VerifMissingKeys(err)
		if len(keys) > 0 {
			e.V = "missing"
			seen := map[string]bool{}
			for _, k := range keys {
				ks := keyString(k, false)
				if !seen[ks] {
					seen[ks] = true
					e.MK = append(e.MK, ks)
				}
			}
			sort.Strings(e.MK)
		} else {
			e.V = "reject"
		}
		if !rootIsDig {
			facts = append(facts, "dig-failure-root-not-dig")
		}
	}
	e.CanViz = dig.CanVisualizeError(err)
	e.Class = strings.Join(facts, ",")
}

// guard runs f, converting an escaping panic into a description.
func guard(f func()) (injected *PanicVal, crash string) {
	defer func() {
		if p := recover(); p != nil {
			if pv, ok := asPanicVal(p); ok && p == panicValue(pv.F, pv.N) {
				injected = &pv
				return
			}
			crash = fmt.Sprint(p)
		}
	}()
	f()
	return nil, ""
}

func infoStrings(ins []*dig.Input, outs []*dig.Output) ([]string, []string) {
	var a, b []string
	for _, i := range ins {
		if isJunkIn(i) {
			a = append(a, "<entry of an earlier use>")
			continue
		}
		a = append(a, i.String())
	}
	for _, o := range outs {
		if isJunkOut(o) {
			b = append(b, "<entry of an earlier use>")
			continue
		}
		b = append(b, o.String())
	}
	return a, b
}

// postOp runs the operations that must never execute user code, panic or change anything:
// Visualize and String.
func (r *Runner) postOp(e *Entry) {
	if r.NoViz {
		return
	}
	r.inReg = true
	r.regExec = false
	_, crash := guard(func() {
		var b bytes.Buffer
		if err := dig.Visualize(r.c, &b); err != nil {
			e.VizErr = "Visualize error: " + err.Error()
		}
		e.Dot = b.String()
		if r.lastErr != nil {
			var b2 bytes.Buffer
			if err := dig.Visualize(r.c, &b2, dig.VisualizeError(r.lastErr)); err != nil {
				e.VizErr = "Visualize(err) error: " + err.Error()
			}
			e.DotErr = b2.String()
			// drawing a failure is a view, not a change: the plain picture is what it was
			var b3 bytes.Buffer
			if err := dig.Visualize(r.c, &b3); err == nil && b3.String() != e.Dot {
				e.VizErr = "the plain picture differs after Visualize(VisualizeError(err)) was called"
			}
		}
		_ = r.c.String()
		for _, s := range r.scopes {
			_ = s.String()
		}
	})
	r.inReg = false
	if crash != "" {
		e.VizErr = "panic in Visualize/String: " + crash
	}
	if r.regExec {
		e.VizErr = "user function executed during Visualize/String"
	}
}

// Do executes one operation. op: scope | provide | decorate | invoke.
func (r *Runner) Do(op, f, s string) (*Entry, error) {
	e := &Entry{Op: op, F: f, S: s, MK: []string{}, Log: []Event{}}
	r.log = nil
	r.lastErr = nil
	switch op {
	case "scope":
		par, err := r.api(r.Cat.Parent[s])
		if err != nil {
			return nil, err
		}
		r.inReg, r.regExec = true, false
		_, crash := guard(func() { r.scopes[s] = par.Scope(r.scopeRealName(s)) })
		r.inReg = false
		e.V, e.Crash = "ok", crash
		if r.regExec {
			e.Crash = "user function executed during Scope"
		}
	case "provide", "decorate":
		fn := r.Cat.Fns[f]
		a, err := r.api(fn.Scope)
		if err != nil {
			return nil, err
		}
		val, l, err := r.build(f)
		if err != nil {
			return nil, err
		}
		before := ""
		if !r.NoSnap {
			before = r.rawState()
		}
		info := &Info{}
		var callErr error
		r.inReg, r.regExec = true, false
		_, crash := guard(func() {
			if op == "provide" {
				var pi dig.ProvideInfo
				pi.ID = -12345
				pi.Inputs, pi.Outputs = junkInputs, junkOutputs
				opts := []dig.ProvideOption{dig.FillProvideInfo(&pi)}
				if l != nil {
					opts = append(opts, l.opts...)
				}
				opts = append(opts, r.extraProvideOpts(f)...)
				opts = append(opts, exportOpts(f, fn.Exp)...)
				if fn.Cb {
					opts = append(opts, dig.WithProviderCallback(r.callback(f)))
				}
				callErr = a.Provide(val, opts...)
				info.Filled = pi.ID != -12345 || !untouched(pi.Inputs, pi.Outputs)
				info.ID = int(pi.ID)
				info.Inputs, info.Outputs = infoStrings(pi.Inputs, pi.Outputs)
			} else {
				var di dig.DecorateInfo
				di.ID = -12345
				di.Inputs, di.Outputs = junkInputs, junkOutputs
				opts := []dig.DecorateOption{dig.FillDecorateInfo(&di)}
				if fn.Cb {
					opts = append(opts, dig.WithDecoratorCallback(r.callback(f)))
				}
				callErr = a.Decorate(val, opts...)
				info.Filled = di.ID != -12345 || !untouched(di.Inputs, di.Outputs)
				info.ID = int(di.ID)
				info.Inputs, info.Outputs = infoStrings(di.Inputs, di.Outputs)
			}
		})
		r.inReg = false
		e.Crash = crash
		e.Info = info
		if r.regExec {
			e.Crash = "user function executed during " + op
		}
		if crash == "" {
			r.classify(e, callErr, func() *ExecErr { return nil })
			if callErr == nil {
				r.fnOf[closureID(val)] = f
			} else if !r.NoSnap {
				after := r.rawState()
				e.SnapEq = before == after
				if !e.SnapEq {
					e.SnapDiff = "before:\n" + before + "after:\n" + after
				}
			}
		}
	case "invoke":
		a, err := r.api(s)
		if err != nil {
			return nil, err
		}
		val, _, err := r.build(f)
		if err != nil {
			return nil, err
		}
		var callErr error
		var ii dig.InvokeInfo
		n0 := r.execs[f]
		inj, crash := guard(func() { callErr = a.Invoke(val, dig.FillInvokeInfo(&ii)) })
		e.Crash = crash
		info := &Info{Filled: ii.Inputs != nil}
		info.Inputs, _ = infoStrings(ii.Inputs, nil)
		e.Info = info
		switch {
		case crash != "":
		case inj != nil:
			e.V, e.RF, e.RN = "panicked", inj.F, inj.N
		default:
			r.lastErr = callErr
			r.classify(e, callErr, func() *ExecErr {
				if r.execs[f] > n0 {
					return r.sentinel[planKey{f, r.execs[f]}]
				}
				return nil
			})
		}
	default:
		return nil, fmt.Errorf("unknown op %q", op)
	}
	e.Log = append(e.Log, r.log...)
	r.log = nil
	r.postOp(e)
	if !r.NoSnap {
		e.Snap = r.snapshot()
	}
	return e, nil
}

func (r *Runner) extraProvideOpts(f string) []dig.ProvideOption { return nil }

// exportOpts spells the Export choice of function f in one of three ways: the shortest one
// (nothing for a private constructor), explicitly (Export(false) / Export(true)), or overriding
// an earlier, opposite Export in the same call (options apply in order: the last one wins).
func exportOpts(f string, exported bool) []dig.ProvideOption {
	switch (len(f) + int(f[len(f)-1])) % 3 {
	case 0:
		if exported {
			return []dig.ProvideOption{dig.Export(true)}
		}
		return nil
	case 1:
		return []dig.ProvideOption{dig.Export(exported)}
	}
	return []dig.ProvideOption{dig.Export(!exported), dig.Export(exported)}
}

func (r *Runner) buildLib(id string) (interface{}, *layout, error) {
	f := r.Cat.Fns[id]
	fn, ok := lib.Funcs[f.Enc.Lib]
	if !ok {
		return nil, nil, fmt.Errorf("no library function %q", f.Enc.Lib)
	}
	l, err := layoutFromFunc(f, reflect.TypeOf(fn))
	if err != nil {
		return nil, nil, err
	}
	if r.libBodies == nil {
		r.libBodies = map[string]func([]reflect.Value) []reflect.Value{}
	}
	r.libBodies[f.Enc.Lib] = r.body(id, l)
	lib.Dispatch = func(name string, args []reflect.Value) []reflect.Value {
		b, ok := r.libBodies[name]
		if !ok {
			panic("library function " + name + " called but not bound to the current container")
		}
		return b(args)
	}
	r.libOf[id] = f.Enc.Lib
	return fn, l, nil
}

// layoutFromFunc derives the layout of a declared function from its Go type.
func layoutFromFunc(f *cat.Fn, ft reflect.Type) (*layout, error) {
	l := &layout{fn: f, hasErr: true}
	idx := 0
	for i := 0; i < ft.NumIn(); i++ {
		t := ft.In(i)
		if t.Kind() == reflect.Struct && t.NumField() > 0 && t.Field(0).Type == inType {
			g := pgroup{obj: true, typ: t}
			for j := 1; j < t.NumField(); j++ {
				g.idxs = append(g.idxs, idx)
				g.tree = append(g.tree, pnode{idx: idx})
				idx++
			}
			l.ps = append(l.ps, g)
			continue
		}
		l.ps = append(l.ps, pgroup{idxs: []int{idx}, typ: t})
		idx++
	}
	if idx != len(f.Ps) {
		return nil, fmt.Errorf("library function has %d flat parameters, the catalog entry %d", idx, len(f.Ps))
	}
	idx = 0
	for i := 0; i < ft.NumOut(); i++ {
		t := ft.Out(i)
		if t == errType {
			continue
		}
		if t.Kind() == reflect.Struct && t.NumField() > 0 && t.Field(0).Type == outType {
			g := rgroup{obj: true, typ: t}
			for j := 1; j < t.NumField(); j++ {
				g.idxs = append(g.idxs, idx)
				g.tree = append(g.tree, pnode{idx: idx})
				idx++
			}
			l.rs = append(l.rs, g)
			continue
		}
		l.rs = append(l.rs, rgroup{idxs: []int{idx}, typ: t})
		idx++
	}
	if idx != len(f.Rs) {
		return nil, fmt.Errorf("library function has %d flat results, the catalog entry %d", idx, len(f.Rs))
	}
	return l, nil
}

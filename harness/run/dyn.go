package run

import (
	"errors"
	"fmt"
	"reflect"
	"runtime"
	"time"
	"unsafe"

	"go.uber.org/dig"

	"verif/harness/cat"
	"verif/harness/univ"
)

// ExecErr is the error a user function returns when its planned outcome is "err".
type ExecErr struct {
	F string
	N int
}

func (e *ExecErr) Error() string { return fmt.Sprintf("planned failure of %s#%d", e.F, e.N) }

// Unwrap: half of the planned failures wrap a lower-level cause of the user's own, as
// fmt.Errorf("load config: %w", fs.ErrNotExist) does. The error the function returned stays the
// root cause as far as dig is concerned (RootCause stops at the first error that is not dig's).
func (e *ExecErr) Unwrap() error {
	if (len(e.F)+int(e.F[len(e.F)-1])+e.N)%2 == 1 {
		return errLowerCause
	}
	return nil
}

var errLowerCause = errors.New("lower-level cause of a planned failure")

// PanicVal is the value a user function panics with when its planned outcome is "panic".
type PanicVal struct {
	F string
	N int
}

// PanicErrVal is the other shape of a panic value: an error whose chain contains a genuine
// dig error (what a user function does that panics with the error of a nested dig call).
// A recovered panic must stay the root cause whatever the panic value is (C13).
type PanicErrVal struct {
	PanicVal
	Inner error
}

func (p PanicErrVal) Error() string {
	return fmt.Sprintf("planned panic of %s#%d: %v", p.F, p.N, p.Inner)
}
func (p PanicErrVal) Unwrap() error { return p.Inner }

// innerDigErr is a genuine dig error (missing type) obtained from a throw-away container.
var innerDigErr error = &innerErr{dig.New().Invoke(func(*univ.T0) {})}

// innerErr keeps the panic value comparable (dig's error types need not be).
type innerErr struct{ err error }

func (e *innerErr) Error() string { return "nested dig call failed: " + e.err.Error() }
func (e *innerErr) Unwrap() error { return e.err }

// PanicRtVal is the third shape: a runtime.Error (what a nil-map write or an index out of
// range panics with).
type PanicRtVal struct{ PanicVal }

func (p PanicRtVal) Error() string {
	return fmt.Sprintf("runtime error: planned panic of %s#%d", p.F, p.N)
}
func (PanicRtVal) RuntimeError() {}

var _ runtime.Error = PanicRtVal{}

// panicValue is the Go value execution n of f panics with: all shapes occur.
func panicValue(f string, n int) interface{} {
	switch (len(f) + int(f[len(f)-1]) + n) % 3 {
	case 0:
		return PanicErrVal{PanicVal{f, n}, innerDigErr}
	case 1:
		return PanicRtVal{PanicVal{f, n}}
	}
	return PanicVal{f, n}
}

// asPanicVal recognises an injected panic value of either shape.
func asPanicVal(p interface{}) (PanicVal, bool) {
	switch v := p.(type) {
	case PanicVal:
		return v, true
	case PanicErrVal:
		return v.PanicVal, true
	case PanicRtVal:
		return v.PanicVal, true
	}
	return PanicVal{}, false
}

var (
	inType  = reflect.TypeOf(dig.In{})
	outType = reflect.TypeOf(dig.Out{})
	errType = reflect.TypeOf((*error)(nil)).Elem()
)

// pgroup is one Go-level parameter: a positional value or a parameter object.
type pgroup struct {
	obj  bool
	idxs []int // declaration indices (0-based) of the flat parameters it holds
	typ  reflect.Type
	nest int
	tree []pnode // fields of the object, in order (objects only)
}

// pnode is one field of a parameter object: a flat parameter (idx >= 0) or a nested object.
type pnode struct {
	idx  int
	kids []pnode
}

// rgroup is one Go-level result: a positional value or a result object.
type rgroup struct {
	obj  bool
	idxs []int
	typ  reflect.Type
	tree []pnode // fields of the object, in order (objects only)
}

type layout struct {
	fn       *cat.Fn
	ps       []pgroup
	rs       []rgroup
	opts     []dig.ProvideOption // Name / Group / As when given by option
	variadic bool
	hasErr   bool
	errFirst bool
}

func paramType(p cat.Param) reflect.Type {
	k := univ.ParseKey(p.K)
	t := univ.Type(k.T)
	if p.M == "grp" || p.M == "soft" {
		return reflect.SliceOf(t)
	}
	return t
}

func paramTag(p cat.Param) string {
	k := univ.ParseKey(p.K)
	tag := ""
	if k.Name != "" {
		tag += fmt.Sprintf(`name:%q `, univ.RealName(k.Name))
	}
	if p.M == "opt" {
		tag += `optional:"true" `
	}
	if p.M == "grp" {
		tag += fmt.Sprintf(`group:%q `, k.Group)
	}
	if p.M == "soft" {
		tag += fmt.Sprintf(`group:%q `, k.Group+",soft")
	}
	return tag
}

func paramNeedsTag(p cat.Param) bool { return paramTag(p) != "" }

// concrete type name of the value result r produces
func concrete(r cat.Result) string {
	if r.CT != "" {
		return r.CT
	}
	t := univ.ParseKey(r.Ks[0]).T
	if t[0] == 'I' {
		return "T0"
	}
	return t
}

func resultNeedsAs(r cat.Result) bool {
	return len(r.Ks) > 1 || (r.CT != "" && r.CT != univ.ParseKey(r.Ks[0]).T)
}

// declared Go type of flat result r when it is NOT given through As
func resultType(kind string, r cat.Result) reflect.Type {
	t := univ.Type(univ.ParseKey(r.Ks[0]).T)
	if r.M == "flat" || (kind == "dec" && r.M == "grp") {
		return reflect.SliceOf(t)
	}
	return t
}

func resultTag(kind string, r cat.Result) string {
	k := univ.ParseKey(r.Ks[0])
	switch {
	case r.M == "one" && k.Name != "":
		return fmt.Sprintf(`name:%q`, univ.RealName(k.Name))
	case r.M == "grp":
		return fmt.Sprintf(`group:%q`, k.Group)
	case r.M == "flat":
		return fmt.Sprintf(`group:%q`, k.Group+",flatten")
	}
	return ""
}

func inStruct(fields []reflect.StructField, nest int) reflect.Type {
	fs := append([]reflect.StructField{{Name: "In", Type: inType, Anonymous: true}}, fields...)
	t := reflect.StructOf(fs)
	for i := 0; i < nest; i++ {
		t = reflect.StructOf([]reflect.StructField{
			{Name: "In", Type: inType, Anonymous: true},
			{Name: "W", Type: t},
		})
	}
	return t
}

// objFields builds the fields of the parameter object holding the flat parameters i..j-1 whose
// nested-object paths (Param.P) agree on the first depth elements.
func objFields(fn *cat.Fn, i, j, depth int) ([]reflect.StructField, []pnode, error) {
	var fields []reflect.StructField
	var tree []pnode
	for x := i; x < j; {
		p := fn.Ps[x]
		if len(p.P) < depth {
			return nil, nil, fmt.Errorf("parameter %d: nested-object path shorter than that of its neighbours", x)
		}
		if len(p.P) == depth {
			fields = append(fields, reflect.StructField{
				Name: fmt.Sprintf("F%d", x),
				Type: paramType(p),
				Tag:  reflect.StructTag(paramTag(p)),
			})
			tree = append(tree, pnode{idx: x})
			x++
			continue
		}
		y := x + 1
		for y < j && len(fn.Ps[y].P) > depth && fn.Ps[y].P[depth] == p.P[depth] {
			y++
		}
		sub, kids, err := objFields(fn, x, y, depth+1)
		if err != nil {
			return nil, nil, err
		}
		fields = append(fields, reflect.StructField{Name: fmt.Sprintf("N%d", x), Type: inStruct(sub, 0)})
		tree = append(tree, pnode{idx: -1, kids: kids})
		x = y
	}
	return fields, tree, nil
}

func outStruct(fields []reflect.StructField) reflect.Type {
	fs := append([]reflect.StructField{{Name: "Out", Type: outType, Anonymous: true}}, fields...)
	return reflect.StructOf(fs)
}

// newLayout decides the Go signature of a catalog function.
func newLayout(fn *cat.Fn) (*layout, error) {
	l := &layout{fn: fn, variadic: fn.Enc.Variadic, hasErr: !fn.Enc.NoErr, errFirst: fn.Enc.ErrFirst && !fn.Enc.NoErr}
	// parameters: maximal runs of equal O>0 are objects
	for i := 0; i < len(fn.Ps); {
		p := fn.Ps[i]
		if p.O == 0 && !paramNeedsTag(p) {
			l.ps = append(l.ps, pgroup{idxs: []int{i}, typ: paramType(p)})
			i++
			continue
		}
		j := i + 1
		if p.O > 0 {
			for j < len(fn.Ps) && fn.Ps[j].O == p.O {
				j++
			}
		}
		var idxs []int
		for x := i; x < j; x++ {
			idxs = append(idxs, x)
		}
		fields, tree, err := objFields(fn, i, j, 0)
		if err != nil {
			return nil, err
		}
		l.ps = append(l.ps, pgroup{obj: true, idxs: idxs, typ: inStruct(fields, fn.Enc.Nest), nest: fn.Enc.Nest, tree: tree})
		i = j
	}
	// results
	if len(fn.Rs) == 1 && fn.Kind == "ctor" && (resultNeedsAs(fn.Rs[0]) || (fn.Enc.ViaOpt && fn.Rs[0].O == 0)) {
		r := fn.Rs[0]
		k := univ.ParseKey(r.Ks[0])
		var typ reflect.Type
		if resultNeedsAs(r) {
			typ = univ.Type(concrete(r))
			if r.M == "flat" {
				return nil, fmt.Errorf("flatten with As is not a valid catalog entry")
			}
			var as []interface{}
			for _, ks := range r.Ks {
				as = append(as, univ.AsPtr(univ.ParseKey(ks).T))
			}
			l.opts = append(l.opts, dig.As(as...))
		} else {
			typ = resultType(fn.Kind, r)
		}
		if k.Name != "" {
			l.opts = append(l.opts, dig.Name(univ.RealName(k.Name)))
		}
		if r.M == "grp" {
			l.opts = append(l.opts, dig.Group(k.Group))
		}
		if r.M == "flat" {
			l.opts = append(l.opts, dig.Group(k.Group+",flatten"))
		}
		l.rs = append(l.rs, rgroup{idxs: []int{0}, typ: typ})
		return l, nil
	}
	for i := 0; i < len(fn.Rs); {
		r := fn.Rs[i]
		if resultNeedsAs(r) {
			return nil, fmt.Errorf("As on a multi-result function is not a valid catalog entry")
		}
		if r.O == 0 && resultTag(fn.Kind, r) == "" && !fn.Enc.RNest {
			l.rs = append(l.rs, rgroup{idxs: []int{i}, typ: resultType(fn.Kind, r)})
			i++
			continue
		}
		j := i + 1
		if r.O > 0 {
			for j < len(fn.Rs) && fn.Rs[j].O == r.O {
				j++
			}
		}
		if fn.Enc.RNest {
			j = len(fn.Rs) // one result object for everything, nested below
		}
		var fields []reflect.StructField
		var idxs []int
		for x := i; x < j; x++ {
			fields = append(fields, reflect.StructField{
				Name: fmt.Sprintf("R%d", x),
				Type: resultType(fn.Kind, fn.Rs[x]),
				Tag:  reflect.StructTag(resultTag(fn.Kind, fn.Rs[x])),
			})
			idxs = append(idxs, x)
		}
		var tree []pnode
		for _, x := range idxs {
			tree = append(tree, pnode{idx: x})
		}
		if fn.Enc.RNest {
			// all fields but the first move into a nested result object (a single field is
			// wrapped): dig.Out structs may hold dig.Out structs
			cut := 1
			if len(fields) == 1 {
				cut = 0
			}
			inner := outStruct(fields[cut:])
			fields = append(append([]reflect.StructField(nil), fields[:cut]...), reflect.StructField{Name: fmt.Sprintf("N%d", i), Type: inner})
			tree = append(append([]pnode(nil), tree[:cut]...), pnode{idx: -1, kids: tree[cut:]})
		}
		l.rs = append(l.rs, rgroup{obj: true, idxs: idxs, typ: outStruct(fields), tree: tree})
		i = j
	}
	return l, nil
}

func (l *layout) funcType() reflect.Type {
	var ins, outs []reflect.Type
	for _, g := range l.ps {
		ins = append(ins, g.typ)
	}
	if l.variadic {
		ins = append(ins, reflect.TypeOf([]int(nil)))
	}
	if l.hasErr && l.errFirst {
		outs = append(outs, errType)
	}
	for _, g := range l.rs {
		outs = append(outs, g.typ)
	}
	if l.hasErr && !l.errFirst {
		outs = append(outs, errType)
	}
	return reflect.FuncOf(ins, outs, l.variadic)
}

// decode returns, per flat parameter, the provenance of what was received.
func (l *layout) decode(args []reflect.Value) [][]univ.Prov {
	out := make([][]univ.Prov, len(l.fn.Ps))
	one := func(idx int, v reflect.Value) {
		p := l.fn.Ps[idx]
		if p.M == "grp" || p.M == "soft" {
			ps := make([]univ.Prov, 0, v.Len())
			for i := 0; i < v.Len(); i++ {
				ps = append(ps, univ.ProvOf(v.Index(i)))
			}
			out[idx] = ps
			return
		}
		out[idx] = []univ.Prov{univ.ProvOf(v)}
	}
	for gi, g := range l.ps {
		v := args[gi]
		if !g.obj {
			one(g.idxs[0], v)
			continue
		}
		for n := 0; n < g.nest; n++ {
			v = v.Field(1)
		}
		var walk func(v reflect.Value, tree []pnode)
		walk = func(v reflect.Value, tree []pnode) {
			for fi, nd := range tree {
				if nd.idx >= 0 {
					one(nd.idx, v.Field(fi+1))
				} else {
					walk(v.Field(fi+1), nd.kids)
				}
			}
		}
		walk(v, g.tree)
	}
	return out
}

// make builds the Go results of execution n of function id.
func (l *layout) make(id string, n int, zero bool) []reflect.Value {
	mk := func(idx int, typ reflect.Type) reflect.Value {
		if zero {
			return reflect.Zero(typ)
		}
		r := l.fn.Rs[idx]
		ct := concrete(r)
		if r.M == "flat" || (l.fn.Kind == "dec" && r.M == "grp") {
			s := reflect.MakeSlice(typ, 0, r.N)
			for e := 1; e <= r.N; e++ {
				if e <= 2 && l.fn.Enc.NilRes && r.M == "flat" {
					// a nil member (a nil interface if the group is one of interfaces) is a
					// member like any other, and so are two of them
					s = reflect.Append(s, reflect.Zero(typ.Elem()))
					continue
				}
				s = reflect.Append(s, univ.New(ct, univ.Prov{F: id, N: n, I: idx + 1, E: e}).Convert(typ.Elem()))
			}
			return s
		}
		if l.fn.Enc.NilRes {
			// a nil pointer is a value like any other
			return reflect.Zero(univ.Type(ct)).Convert(typ)
		}
		return univ.New(ct, univ.Prov{F: id, N: n, I: idx + 1}).Convert(typ)
	}
	var outs []reflect.Value
	if l.hasErr && l.errFirst {
		outs = append(outs, reflect.Zero(errType))
	}
	for _, g := range l.rs {
		if !g.obj {
			outs = append(outs, mk(g.idxs[0], g.typ))
			continue
		}
		sv := reflect.New(g.typ).Elem()
		var fill func(v reflect.Value, tree []pnode)
		fill = func(v reflect.Value, tree []pnode) {
			for fi, nd := range tree {
				if nd.idx >= 0 {
					v.Field(fi + 1).Set(mk(nd.idx, v.Type().Field(fi+1).Type))
				} else {
					fill(v.Field(fi+1), nd.kids)
				}
			}
		}
		fill(sv, g.tree)
		outs = append(outs, sv)
	}
	if l.hasErr && !l.errFirst {
		outs = append(outs, reflect.Zero(errType))
	}
	return outs
}

// errIndex is the position of the error result among the Go results.
func (l *layout) errIndex(n int) int {
	if l.errFirst {
		return 0
	}
	return n - 1
}

// closureID identifies a func value by the address of its closure object (reflect.MakeFunc
// results all share one code pointer, so Value.Pointer() cannot tell them apart).
func closureID(fn interface{}) uintptr {
	if fn == nil {
		return 0
	}
	return uintptr((*[2]unsafe.Pointer)(unsafe.Pointer(&fn))[1])
}

const unit = time.Millisecond

package run

import (
	"fmt"
	"math/rand"

	"verif/harness/cat"
)

// ScriptOp is one operation of a predetermined history.
type ScriptOp struct {
	Op, F, S string
}

// Script extracts the operations of a recorded execution.
func (rec *Recorded) Script() []ScriptOp {
	var s []ScriptOp
	for _, e := range rec.Ops {
		s = append(s, ScriptOp{e.Op, e.F, e.S})
	}
	return s
}

// RunScript executes a predetermined history (no faults) on a fresh real container.
func RunScript(c *cat.Catalog, opt cat.Opts, script []ScriptOp, variant string) *Recorded {
	rec := &Recorded{Cat: c, Opt: opt, Variant: variant}
	rn := New(c, opt)
	for _, op := range script {
		e, err := rn.Do(op.Op, op.F, op.S)
		if err != nil {
			rec.Err = err.Error()
			return rec
		}
		rec.Ops = append(rec.Ops, e)
		if e.Crash != "" {
			return rec
		}
	}
	return rec
}

// PermuteBlocks shuffles every maximal run of Provide / Decorate operations.
func PermuteBlocks(r *rand.Rand, script []ScriptOp) []ScriptOp {
	out := append([]ScriptOp(nil), script...)
	i := 0
	for i < len(out) {
		if out[i].Op != "provide" && out[i].Op != "decorate" {
			i++
			continue
		}
		j := i
		for j < len(out) && (out[j].Op == "provide" || out[j].Op == "decorate") {
			j++
		}
		r.Shuffle(j-i, func(a, b int) { out[i+a], out[i+b] = out[i+b], out[i+a] })
		i = j
	}
	return out
}

// MoveScopes repositions every scope creation: as early as possible (right after its parent
// exists) or as late as possible (just before the first operation that needs the scope or one
// of its descendants).
func MoveScopes(c *cat.Catalog, script []ScriptOp, early bool) []ScriptOp {
	var scopes []ScriptOp
	var rest []ScriptOp
	for _, op := range script {
		if op.Op == "scope" {
			scopes = append(scopes, op)
		} else {
			rest = append(rest, op)
		}
	}
	if early {
		// creation order of the original keeps parents before children
		return append(scopes, rest...)
	}
	created := map[string]bool{"r": true}
	pending := map[string]ScriptOp{}
	for _, s := range scopes {
		pending[s.S] = s
	}
	var out []ScriptOp
	var need func(s string)
	need = func(s string) {
		if created[s] || s == "" {
			return
		}
		need(c.Parent[s])
		out = append(out, pending[s])
		created[s] = true
	}
	for _, op := range rest {
		need(op.S)
		out = append(out, op)
	}
	// scopes never used are created at the end
	for _, s := range scopes {
		need(s.S)
	}
	return out
}

// Reencode returns an equivalent catalog in which every function's signature is encoded
// differently: positional parameters gathered into parameter objects (or objects nested one
// level deeper), results moved into result objects, a variadic parameter appended, name / group
// moved between option and tag. The flat parameter and result lists stay the same.
func Reencode(r *rand.Rand, c *cat.Catalog) *cat.Catalog {
	d := c.Clone()
	for _, id := range d.FnIDs() {
		f := d.Fns[id]
		if f.Enc.Lib != "" || f.Inv != "" {
			continue
		}
		hasSoft := false
		for _, p := range f.Ps {
			if p.M == "soft" {
				hasSoft = true
			}
		}
		// parameters: gather maximal runs of positional parameters into one object, or spread an
		// object's non-tagged parameters out (soft groups keep their object: their build order
		// depends on it)
		if !hasSoft {
			switch r.Intn(3) {
			case 0:
				for i := range f.Ps {
					f.Ps[i].P = nil
					if f.Ps[i].O == 0 {
						f.Ps[i].O = 50
					}
				}
			case 1:
				for i := range f.Ps {
					f.Ps[i].P = nil
					f.Ps[i].O = 60 + i // every parameter its own object
				}
			}
			renumber(f)
			// without soft groups nesting is invisible: move a random part of every object into a
			// nested object (or flatten the nesting that was there)
			for i := 0; i < len(f.Ps); {
				j := i
				for j < len(f.Ps) && f.Ps[j].O == f.Ps[i].O && f.Ps[i].O != 0 {
					j++
				}
				if j == i {
					i++
					continue
				}
				switch r.Intn(3) {
				case 0:
					for x := i; x < j; x++ {
						f.Ps[x].P = nil
					}
				case 1:
					a := i + r.Intn(j-i)
					for x := i; x < j; x++ {
						f.Ps[x].P = nil
						if x >= a {
							f.Ps[x].P = []int{2}
							if x > a && r.Intn(2) == 0 {
								f.Ps[x].P = []int{2, 1}
							}
						}
					}
					// keep equal prefixes contiguous
					deep := false
					for x := a; x < j; x++ {
						if len(f.Ps[x].P) == 2 {
							deep = true
						} else if deep {
							f.Ps[x].P = []int{2, 1}
						}
					}
				}
				i = j
			}
		}
		f.Enc.Nest = (f.Enc.Nest + 1 + r.Intn(2)) % 3
		f.Enc.Variadic = !f.Enc.Variadic
		f.Enc.ErrFirst = !f.Enc.ErrFirst
		f.Enc.RNest = !f.Enc.RNest
		// results
		if f.Kind != "inv" {
			as := false
			for _, rs := range f.Rs {
				if len(rs.Ks) > 1 || rs.CT != "" {
					as = true
				}
			}
			if !as {
				if len(f.Rs) == 1 && f.Kind == "ctor" {
					f.Enc.ViaOpt = !f.Enc.ViaOpt
					if f.Enc.ViaOpt {
						f.Rs[0].O = 0
					}
				} else {
					for i := range f.Rs {
						switch r.Intn(3) {
						case 0:
							f.Rs[i].O = 0
						case 1:
							f.Rs[i].O = 1
						case 2:
							f.Rs[i].O = 10 + i
						}
					}
				}
			}
		}
	}
	d.Note = c.Note + " (re-encoded)"
	return d
}

func renumber(f *cat.Fn) {
	last, run := -1, 0
	for i := range f.Ps {
		p := &f.Ps[i]
		needs := p.M != "req" || len(p.K) > 2
		if needs && p.O == 0 {
			p.O = 1000 + i
		}
		if p.O == 0 {
			last = -1
			continue
		}
		if p.O != last {
			run++
			last = p.O
		}
		p.O = run
	}
}

// ComparePair compares two recorded executions of "the same" history (operations matched by
// kind, function and scope, in order of appearance per function) by what the properties C15 /
// C16 / C17 promise: verdict classes and, for successful Invokes, the wiring by function.
// mode: "perm" | "scope" | "defer" | "enc" | "dry".
func ComparePair(mode string, base, v *Recorded) []Divergence {
	var ds []Divergence
	add := func(kind, detail string) {
		ds = append(ds, Divergence{Kind: "pair." + mode + "." + kind, Detail: detail})
	}
	for _, rec := range []*Recorded{base, v} {
		for _, e := range rec.Ops {
			if e.Crash != "" {
				add("crash", fmt.Sprintf("%s(%s@%s): %s", e.Op, e.F, e.S, e.Crash))
				return ds
			}
		}
	}
	// registrations: same verdict per function. Order may legitimately matter when some
	// registration of the history is rejected (duplicates, cycles): then only the dry / enc /
	// defer comparisons, which keep the order, are meaningful.
	regVerdict := func(rec *Recorded) (map[string]string, bool) {
		m := map[string]string{}
		all := true
		for _, e := range rec.Ops {
			if e.Op == "provide" || e.Op == "decorate" {
				m[e.F] = NormVerdict(e.V)
				// a function dig must reject whatever the state (bad signature, bad options) is
				// rejected in every order: it does not make order matter
				if fn := rec.Cat.Fns[e.F]; e.V != "ok" && !(fn != nil && fn.Inv != "") {
					all = false
				}
			}
		}
		return m, all
	}
	bv, ball := regVerdict(base)
	vv, vall := regVerdict(v)
	ordered := mode == "enc" || mode == "dry" || mode == "defer"
	if !ordered && !(ball && vall) {
		if ball != vall && mode == "scope" {
			// moving a scope creation must not change which registrations are accepted
			add("verdict", fmt.Sprintf("registration verdicts differ when scope creation is moved: %v versus %v", bv, vv))
		}
		return ds
	}
	if mode == "defer" {
		// with deferred verification a cycle is reported later; histories in which any cycle is
		// reported are outside the claim
		for _, rec := range []*Recorded{base, v} {
			for _, e := range rec.Ops {
				if e.V == "cycle" {
					return ds
				}
			}
		}
	}
	for f, b := range bv {
		if vv[f] != b {
			add("verdict", fmt.Sprintf("registration of %s: %s versus %s", f, b, vv[f]))
		}
	}
	// invokes in order
	var bi, vi []*Entry
	for _, e := range base.Ops {
		if e.Op == "invoke" {
			bi = append(bi, e)
		}
	}
	for _, e := range v.Ops {
		if e.Op == "invoke" {
			vi = append(vi, e)
		}
	}
	if len(bi) != len(vi) {
		add("harness", "different number of invokes")
		return ds
	}
	for i := range bi {
		b, w := bi[i], vi[i]
		ctx := fmt.Sprintf("invoke #%d %s@%s", i, b.F, b.S)
		if NormVerdict(b.V) != NormVerdict(w.V) {
			add("verdict", fmt.Sprintf("%s: %s versus %s", ctx, b.V, w.V))
			continue
		}
		if mode == "dry" {
			for _, ev := range w.Log {
				if ev.T == "exec" {
					add("exec", fmt.Sprintf("%s: %s executed in a DryRun container", ctx, ev.F))
				}
			}
			continue
		}
		if b.V != "ok" {
			continue
		}
		// wiring by function: which executions happened and what each received
		be := map[string]Event{}
		we := map[string]Event{}
		for _, ev := range b.Log {
			if ev.T == "exec" {
				be[fmt.Sprintf("%s#%d", ev.F, ev.N)] = ev
			}
		}
		for _, ev := range w.Log {
			if ev.T == "exec" {
				we[fmt.Sprintf("%s#%d", ev.F, ev.N)] = ev
			}
		}
		for k, ev := range be {
			o, ok := we[k]
			if !ok {
				add("exec", fmt.Sprintf("%s: %s ran in one history only", ctx, k))
				continue
			}
			for j := range ev.Args {
				var oa []string
				if j < len(o.Args) {
					oa = provStrings(o.Args[j])
				}
				if provBagS(provStrings(ev.Args[j])) != provBagS(oa) {
					add("args", fmt.Sprintf("%s: %s parameter %d received %v versus %v", ctx, k, j+1, provStrings(ev.Args[j]), oa))
				}
			}
		}
		for k := range we {
			if _, ok := be[k]; !ok {
				add("exec", fmt.Sprintf("%s: %s ran in one history only", ctx, k))
			}
		}
	}
	return ds
}

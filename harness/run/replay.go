package run

import (
	"encoding/json"
	"fmt"
	"hash/fnv"

	"verif/harness/cat"
)

// ModelLine is one history printed by TLC (DigGen / DigTrace): the predictions.
type ModelLine struct {
	Ci     int        `json:"ci"`
	Opt    cat.Opts   `json:"opt"`
	Hist   []*Entry   `json:"hist"`
	Snap   *Snap      `json:"snap"`
	Viz    *VizPic    `json:"viz"`
	VizErr *VizErrPic `json:"vizerr"`
}

// ReplayResult is the outcome of replaying one model history on the real code.
type ReplayResult struct {
	Ci       int          `json:"ci"`
	Divs     []Divergence `json:"divs,omitempty"`
	Ops      int          `json:"ops"`
	Execs    int          `json:"execs"`
	Rejects  int          `json:"rejects"`
	Hash     uint64       `json:"hash"`
	Err      string       `json:"err,omitempty"` // harness problem (not a verdict)
	Observed []*Entry     `json:"observed,omitempty"`
	Features []string     `json:"features,omitempty"`
}

// HistKey hashes the operations of a history (not the predictions).
func HistKey(ml *ModelLine) uint64 {
	h := fnv.New64a()
	fmt.Fprintf(h, "%d|%v|", ml.Ci, ml.Opt)
	for _, e := range ml.Hist {
		fmt.Fprintf(h, "%s,%s,%s;", e.Op, e.F, e.S)
		for _, ev := range e.Log {
			if ev.T == "exec" && ev.O != "ok" {
				fmt.Fprintf(h, "!%s%d%s", ev.F, ev.N, ev.O)
			}
		}
	}
	return h.Sum64()
}

// ReplayOpts tunes a replay.
type ReplayOpts struct {
	FullSnap bool // snapshot / Visualize after every operation, not only the last
	Keep     bool // keep the observed entries in the result
	Mutate   func(c *cat.Catalog) *cat.Catalog
}

// Replay executes the operations of ml on a fresh real container and compares every
// observation with the prediction.
func Replay(c *cat.Catalog, ml *ModelLine, o ReplayOpts) *ReplayResult {
	res := &ReplayResult{Ci: ml.Ci, Hash: HistKey(ml)}
	r := New(c, ml.Opt)
	for _, e := range ml.Hist {
		for _, ev := range e.Log {
			if ev.T == "exec" && ev.O != "ok" {
				r.SetPlan(ev.F, ev.N, ev.O)
			}
		}
	}
	for i, want := range ml.Hist {
		last := i == len(ml.Hist)-1
		r.NoSnap = !(last || o.FullSnap)
		r.NoViz = r.NoSnap
		got, err := r.Do(want.Op, want.F, want.S)
		if err != nil {
			res.Err = fmt.Sprintf("op %d %s(%s@%s): %v", i, want.Op, want.F, want.S, err)
			return res
		}
		w := *want
		if last {
			w.Snap = ml.Snap
			w.Viz = ml.Viz
			w.VizErp = ml.VizErr
		} else {
			w.Snap = nil
		}
		if o.Keep {
			res.Observed = append(res.Observed, got)
		}
		res.Ops++
		for _, ev := range got.Log {
			if ev.T == "exec" {
				res.Execs++
			}
		}
		if want.Op != "invoke" && want.Op != "scope" && normVerdict(want.V) != "ok" {
			res.Rejects++
		}
		ds := CompareEntry(c, ml.Opt.Dry, i, &w, got)
		res.Divs = append(res.Divs, ds...)
		fatal := false
		for _, d := range ds {
			if d.Fatal {
				fatal = true
			}
		}
		if fatal {
			break
		}
	}
	return res
}

// ParseModelLine decodes one JSON line printed by TLC.
func ParseModelLine(s string) (*ModelLine, error) {
	var ml ModelLine
	if err := json.Unmarshal([]byte(s), &ml); err != nil {
		return nil, err
	}
	return &ml, nil
}

package run

import (
	"bufio"
	"encoding/json"
	"fmt"
	"os"
	"sort"

	"verif/harness/cat"
	"verif/harness/univ"
)

// The repository's own test-suite as a trace source: with the build tag verif the library emits
// one event per API call and per execution of a user function (/repo/verif_trace.go). This file
// turns the event stream of one test process into recorded containers in the vocabulary of the
// specification: a catalog per container (reconstructed from the registrations the tests made)
// and its history of operations with everything the events let us observe (verdict classes,
// missing keys, which functions ran in which order with which outcome, and the keys cached in
// every scope afterwards). Argument values are arbitrary Go values of the tests and are not
// observed (Entry.NoArgs).

type tvKey struct {
	T     int    `json:"t"`
	TS    string `json:"ts"`
	Name  string `json:"name"`
	Group string `json:"group"`
}

type tvParam struct {
	T     int    `json:"t"`
	TS    string `json:"ts"`
	Name  string `json:"name"`
	Group string `json:"group"`
	M     string `json:"m"`
	Path  []int  `json:"path"`
}

type tvResult struct {
	Ks []tvKey `json:"ks"`
	M  string  `json:"m"`
}

type tvSnap struct {
	S       int     `json:"s"`
	Vals    []tvKey `json:"vals"`
	DVals   []tvKey `json:"dvals"`
	Grps    []tvKey `json:"grps"`
	DGrps   []tvKey `json:"dgrps"`
	DGrpLen []int   `json:"dgrplen"`
	Called  []int   `json:"called"`
	DCalled []int   `json:"dcalled"`
	DBusy   []int   `json:"dbusy"`
	Busy    []int   `json:"busy"`
}

type tvEvent struct {
	Seq     int        `json:"seq"`
	Ev      string     `json:"ev"`
	C       int        `json:"c"`
	S       int        `json:"s"`
	Parent  int        `json:"parent"`
	Home    int        `json:"home"`
	Node    int        `json:"node"`
	Kind    string     `json:"kind"`
	Defer   bool       `json:"defer"`
	Recover bool       `json:"recover"`
	Dry     bool       `json:"dry"`
	Exp     bool       `json:"exp"`
	Ps      []tvParam  `json:"ps"`
	Rs      []tvResult `json:"rs"`
	Err     string     `json:"err"`
	Missing []tvKey    `json:"missing"`
	Panic   bool       `json:"panicked"`
	FlatLen []int      `json:"flatlen"`
	Ids     [][]uint64 `json:"ids"`
	Snap    []tvSnap   `json:"snap"`
	Text    string     `json:"text"`
}

// RepoTraceStats says what the conversion met.
type RepoTraceStats struct {
	Events     int
	Containers int            // containers with a "new" event
	Converted  int            // containers turned into a recorded history
	Skipped    map[string]int // reason -> containers left out (shapes outside the specification's vocabulary)
	ArgValues  int            // values received by user functions in the converted containers
	Identified int            // of those, identified by pointer with the execution that produced them
}

type tvConv struct {
	names  map[string]string
	groups map[string]string
}

func (cv *tvConv) key(k tvKey) string {
	t := fmt.Sprintf("Y%d", k.T)
	if k.Name != "" {
		n, ok := cv.names[k.Name]
		if !ok {
			n = fmt.Sprintf("n%d", len(cv.names)+1)
			cv.names[k.Name] = n
		}
		return univ.Key{T: t, Name: n}.String()
	}
	if k.Group != "" {
		g, ok := cv.groups[k.Group]
		if !ok {
			g = fmt.Sprintf("g%d", len(cv.groups)+1)
			cv.groups[k.Group] = g
		}
		return univ.Key{T: t, Group: g}.String()
	}
	return t
}

// LoadRepoTrace converts one event file.
func LoadRepoTrace(path string, st *RepoTraceStats) ([]*Recorded, error) {
	f, err := os.Open(path)
	if err != nil {
		return nil, err
	}
	defer f.Close()
	byC := map[int][]*tvEvent{}
	var order []int
	sc := bufio.NewScanner(f)
	sc.Buffer(make([]byte, 1<<20), 64<<20)
	for sc.Scan() {
		var e tvEvent
		if err := json.Unmarshal(sc.Bytes(), &e); err != nil {
			return nil, fmt.Errorf("bad trace line: %v", err)
		}
		st.Events++
		if _, ok := byC[e.C]; !ok {
			order = append(order, e.C)
		}
		byC[e.C] = append(byC[e.C], &e)
	}
	if st.Skipped == nil {
		st.Skipped = map[string]int{}
	}
	var out []*Recorded
	for _, c := range order {
		evs := byC[c]
		if evs[0].Ev != "new" {
			st.Skipped["no container (internal unit test of a node)"]++
			continue
		}
		st.Containers++
		rec, why := convertContainer(evs)
		if rec != nil {
			for _, e := range rec.Ops {
				for _, ev := range e.Log {
					for _, a := range ev.Args {
						for _, p := range a {
							st.ArgValues++
							if p.F != "?" {
								st.Identified++
							}
						}
					}
				}
			}
		}
		if rec == nil {
			st.Skipped[why]++
			continue
		}
		rec.Cat.Note = fmt.Sprintf("repository test-suite, container %d of %s", c, path)
		st.Converted++
		out = append(out, rec)
	}
	return out, nil
}

func convertContainer(evs []*tvEvent) (*Recorded, string) {
	cv := &tvConv{names: map[string]string{}, groups: map[string]string{}}
	c := &cat.Catalog{Parent: map[string]string{"r": ""}, Fns: map[string]*cat.Fn{}}
	first := evs[0]
	opt := cat.Opts{Defer: first.Defer, Recover: first.Recover, Dry: first.Dry}
	c.Opts = []cat.Opts{opt}
	rec := &Recorded{Cat: c, Opt: opt}
	scope := map[int]string{first.S: "r"}
	fnOf := map[string]string{} // kind/node -> catalog id
	nc, nd, ni := 0, 0, 0
	params := func(ps []tvParam) []cat.Param {
		var out []cat.Param
		for _, p := range ps {
			q := cat.Param{K: cv.key(tvKey{T: p.T, Name: p.Name, Group: p.Group}), M: p.M}
			if len(p.Path) > 0 {
				q.O = p.Path[0]
				q.P = append([]int(nil), p.Path[1:]...)
			}
			out = append(out, q)
		}
		return out
	}
	results := func(rs []tvResult) []cat.Result {
		var out []cat.Result
		for _, r := range rs {
			q := cat.Result{M: r.M}
			for _, k := range r.Ks {
				q.Ks = append(q.Ks, cv.key(k))
			}
			out = append(out, q)
		}
		return out
	}
	execs := map[string]int{}
	// identity of values: token -> the results committed under it (pointer identity; a token with
	// several producers - a decorator handing its input on - identifies nothing)
	producers := map[uint64][]univ.Prov{}
	unknown := univ.Prov{F: "?"}
	var cur *Entry      // Invoke in progress
	var entered []Event // executions of the Invoke in progress (pointers into cur.Log by index)
	snapOf := func(sn []tvSnap) *Snap {
		s := &Snap{}
		for id := range scope {
			s.Created = append(s.Created, scope[id])
		}
		for _, x := range sn {
			sid, ok := scope[x.S]
			if !ok {
				s.Foreign = append(s.Foreign, "scope unknown to the trace")
				continue
			}
			for _, k := range x.Vals {
				s.Vals = append(s.Vals, Cell{S: sid, K: cv.key(k)})
			}
			for _, k := range x.DVals {
				s.DVals = append(s.DVals, Cell{S: sid, K: cv.key(k)})
			}
			for _, k := range x.Grps {
				s.Grps = append(s.Grps, Cell{S: sid, K: cv.key(k)})
			}
			for _, k := range x.DGrps {
				s.DGrps = append(s.DGrps, GCell{S: sid, K: cv.key(k)})
			}
			for _, n := range x.Called {
				if id, ok := fnOf[fmt.Sprint("ctor/", n)]; ok {
					s.Called = append(s.Called, id)
				} else {
					s.Foreign = append(s.Foreign, "called constructor that was never accepted")
				}
			}
			for _, n := range x.DCalled {
				if id, ok := fnOf[fmt.Sprint("dec/", n)]; ok {
					s.DCalled = append(s.DCalled, id)
				}
			}
			for _, n := range x.Busy {
				s.Foreign = append(s.Foreign, fmt.Sprintf("constructor %s still on stack between calls", fnOf[fmt.Sprint("ctor/", n)]))
			}
			for _, n := range x.DBusy {
				s.Foreign = append(s.Foreign, fmt.Sprintf("decorator %s still on stack between calls", fnOf[fmt.Sprint("dec/", n)]))
			}
		}
		return s
	}
	var reg, decs []string
	for _, e := range evs[1:] {
		switch e.Ev {
		case "new":
			return nil, "container identity reused"
		case "scope":
			if cur != nil {
				return nil, "API call made from inside a user function (re-entrant use)"
			}
			par, ok := scope[e.Parent]
			if !ok {
				return nil, "scope with unknown parent"
			}
			id := fmt.Sprintf("s%d", len(scope))
			scope[e.S] = id
			c.Parent[id] = par
			rec.Ops = append(rec.Ops, &Entry{Op: "scope", S: id, V: "ok", MK: []string{}, Log: []Event{}, NoArgs: true})
		case "provide":
			if cur != nil {
				return nil, "API call made from inside a user function (re-entrant use)"
			}
			view, ok := scope[e.S]
			if !ok {
				return nil, "registration in an unknown scope"
			}
			nc++
			id := fmt.Sprintf("c%d", nc)
			fn := &cat.Fn{Kind: "ctor", Scope: view, Exp: e.Exp, Ps: params(e.Ps), Rs: results(e.Rs)}
			c.Fns[id] = fn
			v := "ok"
			switch e.Err {
			case "":
				fnOf[fmt.Sprint("ctor/", e.Node)] = id
				reg = append(reg, id)
			case "cycle":
				v = "cycle"
			default:
				v = "reject"
			}
			rec.Ops = append(rec.Ops, &Entry{Op: "provide", F: id, S: view, V: v, MK: []string{}, Log: []Event{}, ErrText: e.Text, NoArgs: true})
		case "decorate":
			if cur != nil {
				return nil, "API call made from inside a user function (re-entrant use)"
			}
			s, ok := scope[e.S]
			if !ok {
				return nil, "registration in an unknown scope"
			}
			nd++
			id := fmt.Sprintf("d%d", nd)
			c.Fns[id] = &cat.Fn{Kind: "dec", Scope: s, Ps: params(e.Ps), Rs: results(e.Rs)}
			fnOf[fmt.Sprint("dec/", e.Node)] = id
			decs = append(decs, id)
			rec.Ops = append(rec.Ops, &Entry{Op: "decorate", F: id, S: s, V: "ok", MK: []string{}, Log: []Event{}, NoArgs: true})
		case "invoke.begin":
			if cur != nil {
				return nil, "API call made from inside a user function (re-entrant use)"
			}
			s, ok := scope[e.S]
			if !ok {
				return nil, "Invoke on an unknown scope"
			}
			ni++
			id := fmt.Sprintf("i%d", ni)
			c.Fns[id] = &cat.Fn{Kind: "inv", Ps: params(e.Ps)}
			fnOf[fmt.Sprint("inv/", e.Node)] = id
			cur = &Entry{Op: "invoke", F: id, S: s, MK: []string{}, Log: []Event{}, NoArgs: true}
			entered = nil
		case "enter":
			if cur == nil {
				return nil, "user function executed outside any Invoke"
			}
			id := cur.F
			if e.Kind != "inv" {
				var ok bool
				if id, ok = fnOf[fmt.Sprint(e.Kind, "/", e.Node)]; !ok {
					return nil, "execution of a function that was never accepted"
				}
			}
			execs[id]++
			ev := Event{T: "exec", F: id, N: execs[id], O: "?"}
			for _, toks := range e.Ids {
				arg := []univ.Prov{}
				for _, tok := range toks {
					if ps := producers[tok]; tok != 0 && len(ps) == 1 {
						arg = append(arg, ps[0])
					} else {
						arg = append(arg, unknown)
					}
				}
				ev.Args = append(ev.Args, arg)
			}
			cur.Log = append(cur.Log, ev)
		case "commit":
			if cur == nil {
				return nil, "results committed outside any Invoke"
			}
			id, ok := fnOf[fmt.Sprint(e.Kind, "/", e.Node)]
			if !ok {
				return nil, "commit of a function that was never accepted"
			}
			if opt.Dry {
				// nothing was entered: a dry container commits zero values
				execs[id]++
			} else {
				found := false
				for i := len(cur.Log) - 1; i >= 0; i-- {
					if cur.Log[i].F == id && cur.Log[i].O == "?" {
						cur.Log[i].O = "ok"
						found = true
						break
					}
				}
				if !found {
					return nil, "commit without execution"
				}
			}
			for i, toks := range e.Ids {
				for x, tok := range toks {
					if tok == 0 {
						continue
					}
					p := univ.Prov{F: id, N: execs[id], I: i + 1}
					if len(toks) != 1 || (i < len(c.Fns[id].Rs) && (c.Fns[id].Rs[i].M == "flat" || (e.Kind == "dec" && c.Fns[id].Rs[i].M == "grp"))) {
						p.E = x + 1
					}
					dup := false
					for _, q := range producers[tok] {
						if q == p {
							dup = true
						}
					}
					if !dup {
						producers[tok] = append(producers[tok], p)
					}
				}
			}
			fn := c.Fns[id]
			for i, n := range e.FlatLen {
				if i < len(fn.Rs) && n >= 0 && (fn.Rs[i].M == "flat" || (fn.Kind == "dec" && fn.Rs[i].M == "grp")) {
					fn.Rs[i].N = n
				}
			}
		case "invoke.end":
			if cur == nil {
				return nil, "end of an Invoke that never began"
			}
			// outcome of the executions that did not commit
			for i := range cur.Log {
				ev := &cur.Log[i]
				if ev.O != "?" {
					continue
				}
				switch {
				case ev.F == cur.F && e.Err == "" && !e.Panic:
					ev.O = "ok"
				case e.Err == "panic" || e.Panic:
					ev.O = "panic"
				default:
					ev.O = "err"
				}
			}
			bad := 0
			var last *Event
			for i := range cur.Log {
				if cur.Log[i].O != "ok" {
					bad++
					last = &cur.Log[i]
				}
			}
			if bad > 1 {
				return nil, "several failed executions in one Invoke (a user function swallowed a failure)"
			}
			switch {
			case e.Panic:
				cur.V = "panicked"
			case e.Err == "":
				cur.V = "ok"
			case e.Err == "panic":
				cur.V = "panic"
			case e.Err == "user":
				cur.V = "fail"
				if last != nil && last.F == cur.F {
					cur.V = "invokeerr"
				}
			case e.Err == "missing":
				cur.V = "missing"
				seen := map[string]bool{}
				for _, k := range e.Missing {
					if ks := cv.key(k); !seen[ks] {
						seen[ks] = true
						cur.MK = append(cur.MK, ks)
					}
				}
				sort.Strings(cur.MK)
			case e.Err == "cycle":
				cur.V = "cycle"
			default:
				cur.V = "reject"
			}
			if last != nil {
				cur.RF, cur.RN = last.F, last.N
			}
			if (cur.V == "fail" || cur.V == "panic" || cur.V == "panicked" || cur.V == "invokeerr") && last == nil {
				return nil, "a user error surfaced without a failed execution (error value produced outside dig's call)"
			}
			cur.ErrText = e.Text
			cur.Snap = snapOf(e.Snap)
			cur.Snap.Reg = append([]string(nil), reg...)
			cur.Snap.Decs = append([]string(nil), decs...)
			rec.Ops = append(rec.Ops, cur)
			cur = nil
		}
	}
	if cur != nil {
		return nil, "Invoke without end event"
	}
	if len(rec.Ops) == 0 {
		return nil, "empty container"
	}
	_ = entered
	return rec, ""
}

package run

import (
	"fmt"
	"sort"
	"strings"
	"sync"

	"verif/harness/cat"
	"verif/harness/lib"
	"verif/harness/univ"
)

// Divergence is one difference between what the specification predicts and what the real
// container did.
type Divergence struct {
	Kind   string `json:"kind"` // see kinds below
	Op     int    `json:"op"`   // index of the operation in the history (0-based)
	Detail string `json:"detail"`
	Fatal  bool   `json:"fatal"` // model and code state have diverged: stop comparing this history
}

func normVerdict(v string) string {
	if v == "invalid" || v == "dup" {
		return "reject"
	}
	return v
}

func provBag(ps []univ.Prov) string {
	ss := make([]string, len(ps))
	for i, p := range ps {
		ss[i] = p.String()
	}
	sort.Strings(ss)
	return "{" + strings.Join(ss, " ") + "}"
}

func strSet(ss []string) string {
	c := append([]string(nil), ss...)
	sort.Strings(c)
	return "{" + strings.Join(c, " ") + "}"
}

type execKey struct {
	F string
	N int
}

var (
	libIDMu sync.Mutex
	libIDs  = map[string]int{} // library function -> constructor ID reported for it (process-wide)
)

// allLib reports whether every constructor of the catalog is a declared library function.
func allLib(c *cat.Catalog) bool {
	n := 0
	for _, f := range c.Fns {
		if f.Kind == "ctor" {
			if f.Enc.Lib == "" {
				return false
			}
			n++
		}
	}
	return n > 0
}

// nilResults rewrites the prediction for functions whose single results are nil pointers
// (Enc.NilRes): what a consumer receives from them, and what is cached, reads as zero.
func nilResults(c *cat.Catalog, want *Entry) *Entry {
	any := false
	for _, f := range c.Fns {
		if f.Enc.NilRes {
			any = true
		}
	}
	if !any {
		return want
	}
	isNil := func(p univ.Prov) bool {
		f := c.Fns[p.F]
		if f == nil || !f.Enc.NilRes || p.I < 1 || p.I > len(f.Rs) {
			return false
		}
		if f.Rs[p.I-1].M == "flat" {
			return p.E <= 2 // the first two members of a flattened slice (two equal members)
		}
		return p.E == 0 && !(f.Kind == "dec" && f.Rs[p.I-1].M == "grp")
	}
	w := *want
	w.Log = append([]Event(nil), want.Log...)
	for i := range w.Log {
		ev := w.Log[i]
		if ev.T != "exec" {
			continue
		}
		args := make([][]univ.Prov, len(ev.Args))
		for j, a := range ev.Args {
			args[j] = append([]univ.Prov(nil), a...)
			for x := range args[j] {
				if isNil(args[j][x]) {
					args[j][x] = univ.Zero
				}
			}
		}
		ev.Args = args
		w.Log[i] = ev
	}
	if want.Snap != nil {
		sn := *want.Snap
		fix := func(cs []Cell) []Cell {
			out := append([]Cell(nil), cs...)
			for i := range out {
				if isNil(out[i].V) {
					out[i].V = univ.Zero
				}
			}
			return out
		}
		sn.Vals, sn.DVals, sn.Grps = fix(sn.Vals), fix(sn.DVals), fix(sn.Grps)
		w.Snap = &sn
	}
	return &w
}

// CompareEntry compares the prediction want with the observation got for operation idx.
func CompareEntry(c *cat.Catalog, dry bool, idx int, want, got *Entry) []Divergence {
	want = nilResults(c, want)
	var ds []Divergence
	add := func(kind, detail string, fatal bool) {
		ds = append(ds, Divergence{Kind: kind, Op: idx, Detail: detail, Fatal: fatal})
	}
	ctx := fmt.Sprintf("%s(%s@%s)", want.Op, want.F, want.S)
	if got.Crash != "" {
		add("crash", ctx+": "+got.Crash, true)
		return ds
	}
	if got.VizErr != "" {
		add("viz.misbehaved", ctx+": "+got.VizErr, false)
	}
	wv, gv := normVerdict(want.V), normVerdict(got.V)
	if wv != gv {
		add("verdict."+want.Op, fmt.Sprintf("%s: want %s got %s (%s)", ctx, want.V, got.V, got.ErrText), true)
	}
	if got.Class != "" {
		for _, f := range strings.Split(got.Class, ",") {
			switch f {
			case "rootdig":
			case "cycle":
				if gv != "cycle" {
					add("class.cycleflag", ctx+": IsCycleDetected is true for verdict "+got.V, false)
				}
			case "panicerr":
			default:
				add("class."+f, ctx+": "+got.ErrText, false)
			}
		}
	}
	if wv == gv {
		switch wv {
		case "fail", "panic", "invokeerr", "panicked":
			if want.RF != got.RF || want.RN != got.RN {
				add("root", fmt.Sprintf("%s: root cause want %s#%d got %s#%d", ctx, want.RF, want.RN, got.RF, got.RN), false)
			}
		case "missing":
			if strSet(want.MK) != strSet(got.MK) {
				add("mk", fmt.Sprintf("%s: missing keys want %s got %s", ctx, strSet(want.MK), strSet(got.MK)), false)
			}
		}
	}
	if want.Op != "invoke" {
		for _, ev := range got.Log {
			add("exec.inreg", fmt.Sprintf("%s: user code ran during a registration: %s %s#%d", ctx, ev.T, ev.F, ev.N), false)
		}
		if wv != "ok" && gv != "ok" && got.Snap != nil && !got.SnapEq {
			add("notrace", ctx+": state changed by a rejected registration\n"+got.SnapDiff, false)
		}
		if got.Info != nil {
			if gv != "ok" && got.Info.Filled {
				add("info.onreject", ctx+": Info struct written by a rejected call", false)
			}
			if gv == "ok" && wv == "ok" && want.Op != "scope" {
				if fn := c.Fns[want.F]; fn != nil && fn.Inv == "" {
					in, out := ExpectedInfo(fn)
					if fn.Enc.Lib != "" && got.Info.Filled {
						libIDMu.Lock()
						if old, ok := libIDs[fn.Enc.Lib]; ok && old != got.Info.ID {
							add("info.id", fmt.Sprintf("%s: the same function %s was given ID %d and %d", ctx, fn.Enc.Lib, old, got.Info.ID), false)
						}
						for other, id := range libIDs {
							if other != fn.Enc.Lib && id == got.Info.ID {
								add("info.id", fmt.Sprintf("%s: distinct functions %s and %s share ID %d", ctx, other, fn.Enc.Lib, id), false)
							}
						}
						libIDs[fn.Enc.Lib] = got.Info.ID
						libIDMu.Unlock()
					}
					if !got.Info.Filled {
						add("info.missing", ctx+": Info struct not filled by an accepted call", false)
					} else if !eqStrings(in, got.Info.Inputs) || !eqStrings(out, got.Info.Outputs) {
						add("info.entries", fmt.Sprintf("%s: Info want in=%q out=%q got in=%q out=%q", ctx, in, out, got.Info.Inputs, got.Info.Outputs), false)
					}
				}
			}
		}
	} else if got.Info != nil && got.Info.Filled {
		if fn := c.Fns[want.F]; fn != nil && fn.Inv == "" {
			in, _ := ExpectedInfo(fn)
			if !eqStrings(in, got.Info.Inputs) {
				add("info.entries", fmt.Sprintf("%s: InvokeInfo want in=%q got in=%q", ctx, in, got.Info.Inputs), false)
			}
		}
	} else if want.Op == "invoke" && got.Info != nil {
		// the arguments were built (the function was called, or would have been): the Info struct
		// lists the dependencies whatever the function then does
		ran := wv == "ok" && gv == "ok"
		for _, ev := range got.Log {
			if ev.T == "exec" && ev.F == want.F {
				ran = true
			}
		}
		if fn := c.Fns[want.F]; ran && fn != nil && fn.Inv == "" && len(fn.Ps) > 0 {
			add("info.missing", ctx+": InvokeInfo not filled although the arguments of the function were built", false)
		}
	}
	// executions
	wex := map[execKey]Event{}
	gex := map[execKey]Event{}
	var worder, gorder []execKey
	for _, ev := range want.Log {
		if ev.T == "exec" {
			wex[execKey{ev.F, ev.N}] = ev
			worder = append(worder, execKey{ev.F, ev.N})
		}
	}
	pos := map[execKey]int{}
	for i, ev := range got.Log {
		if ev.T == "exec" {
			gex[execKey{ev.F, ev.N}] = ev
			gorder = append(gorder, execKey{ev.F, ev.N})
			pos[execKey{ev.F, ev.N}] = i
		}
	}
	for _, k := range gorder {
		if _, ok := wex[k]; !ok {
			kind := "exec.extra"
			if dry {
				kind = "exec.dry"
			}
			add(kind, fmt.Sprintf("%s: %s#%d executed but must not", ctx, k.F, k.N), false)
		}
	}
	for _, k := range worder {
		if _, ok := gex[k]; !ok {
			add("exec.missing", fmt.Sprintf("%s: %s#%d must execute but did not", ctx, k.F, k.N), false)
		}
	}
	if len(ds) == 0 && len(worder) == len(gorder) {
		for i := range worder {
			if worder[i] != gorder[i] {
				add("exec.order", fmt.Sprintf("%s: execution order want %v got %v", ctx, worder, gorder), false)
				break
			}
		}
	}
	// real-vs-real: everything a function received was produced by an earlier execution of
	// this history (or is zero)
	for _, k := range gorder {
		ev := gex[k]
		for j, a := range ev.Args {
			for _, p := range a {
				if p == univ.Zero {
					continue
				}
				if p.F == k.F && p.N == k.N {
					add("exec.depsfirst", fmt.Sprintf("%s: %s#%d received its own output in parameter %d", ctx, k.F, k.N, j), false)
				}
			}
		}
	}
	for _, k := range worder {
		w := wex[k]
		g, ok := gex[k]
		if !ok {
			continue
		}
		if w.O != g.O {
			add("exec.outcome", fmt.Sprintf("%s: %s#%d outcome want %s got %s", ctx, k.F, k.N, w.O, g.O), false)
		}
		fn := c.Fns[k.F]
		for j := range fn.Ps {
			var wa, ga []univ.Prov
			if j < len(w.Args) {
				wa = w.Args[j]
			}
			if j < len(g.Args) {
				ga = g.Args[j]
			}
			if got.NoArgs {
				// values identified by pointer only: compare the parameters all of whose values
				// were identified
				known := j < len(g.Args)
				for _, p := range ga {
					if p.F == "?" {
						known = false
					}
				}
				if !known {
					continue
				}
			}
			if provBag(wa) == provBag(ga) {
				continue
			}
			kind := "args." + fn.Ps[j].M
			add(kind, fmt.Sprintf("%s: %s#%d parameter %d (%s %s): want %s got %s", ctx, k.F, k.N, j+1, fn.Ps[j].K, fn.Ps[j].M, provBag(wa), provBag(ga)), false)
		}
	}
	// re-entrant Invokes made by user functions: same calls, in order, with the same outcome
	var wn, gn []Event
	for _, ev := range want.Log {
		if ev.T == "nest" {
			wn = append(wn, ev)
		}
	}
	for _, ev := range got.Log {
		if ev.T == "nest" {
			gn = append(gn, ev)
		}
	}
	if len(wn) != len(gn) {
		add("nest.count", fmt.Sprintf("%s: nested Invokes want %d got %d", ctx, len(wn), len(gn)), false)
	} else {
		for i := range wn {
			w, g := wn[i], gn[i]
			if w.F != g.F {
				add("nest.count", fmt.Sprintf("%s: nested Invoke %d want %s got %s", ctx, i, w.F, g.F), false)
				continue
			}
			if normVerdict(w.O) != g.O {
				add("nest.verdict", fmt.Sprintf("%s: nested Invoke of %s: want %s got %s", ctx, w.F, w.O, g.O), false)
			} else if (g.O == "fail" || g.O == "panic" || g.O == "invokeerr") && (w.E != g.E || w.N != g.N) {
				add("nest.root", fmt.Sprintf("%s: nested Invoke of %s: root cause want %s#%d got %s#%d", ctx, w.F, w.E, w.N, g.E, g.N), false)
			}
			if g.Name != "" {
				add("class."+g.Name, fmt.Sprintf("%s: error of the nested Invoke of %s", ctx, w.F), false)
			}
		}
	}
	// callbacks
	var wcb, gcb []Event
	for _, ev := range want.Log {
		if ev.T == "cb" {
			wcb = append(wcb, ev)
		}
	}
	for _, ev := range got.Log {
		if ev.T == "cb" {
			gcb = append(gcb, ev)
		}
	}
	cbKind := "cb"
	if dry {
		cbKind = "cb.dry"
	}
	if len(wcb) != len(gcb) {
		add(cbKind+".count", fmt.Sprintf("%s: callbacks want %d got %d (%v vs %v)", ctx, len(wcb), len(gcb), cbList(wcb), cbList(gcb)), false)
	} else {
		for i := range wcb {
			w, g := wcb[i], gcb[i]
			if w.F != g.F || w.N != g.N {
				add(cbKind+".count", fmt.Sprintf("%s: callback %d want %s#%d got %s#%d", ctx, i, w.F, w.N, g.F, g.N), false)
				continue
			}
			if w.E != "any" && w.E != g.E {
				add(cbKind+".err", fmt.Sprintf("%s: callback of %s#%d Error class want %s got %s", ctx, w.F, w.N, w.E, g.E), false)
			}
			if !dry && w.Rt != g.Rt {
				add(cbKind+".runtime", fmt.Sprintf("%s: callback of %s#%d Runtime want %d got %d", ctx, w.F, w.N, w.Rt, g.Rt), false)
			}
		}
	}
	for _, ev := range gcb {
		if fn := c.Fns[ev.F]; fn != nil && fn.Enc.Lib != "" {
			if wantName := lib.RuntimeName(fn.Enc.Lib); ev.Name != wantName {
				add("cb.name", fmt.Sprintf("%s: callback Name want %q got %q", ctx, wantName, ev.Name), false)
			}
		}
	}
	// a callback must come right after the execution it reports
	if !dry {
		for i, ev := range got.Log {
			if ev.T == "cb" && (i == 0 || got.Log[i-1].T != "exec" || got.Log[i-1].F != ev.F || got.Log[i-1].N != ev.N) {
				add("cb.order", fmt.Sprintf("%s: callback of %s#%d does not follow its execution", ctx, ev.F, ev.N), false)
			}
		}
	}
	if want.Snap != nil && got.Snap != nil {
		ds = append(ds, compareSnap(c, dry || got.NoArgs, idx, ctx, want.Snap, got.Snap)...)
	}
	if want.Viz != nil && got.Dot != "" {
		ds = append(ds, CompareViz(idx, ctx, want.Viz, got.Dot)...)
	}
	if want.VizErp != nil && want.Op == "invoke" && wv == gv && wv != "ok" && got.DotErr != "" {
		ds = append(ds, CompareVizErr(c, idx, ctx, want.VizErp, got.CanViz, got.DotErr, allLib(c))...)
	}
	return ds
}

func cbList(evs []Event) []string {
	var s []string
	for _, e := range evs {
		s = append(s, fmt.Sprintf("%s#%d", e.F, e.N))
	}
	return s
}

func cellsString(cs []Cell, dry bool) string {
	ss := make([]string, len(cs))
	for i, c := range cs {
		if dry {
			ss[i] = c.S + ":" + c.K
		} else {
			ss[i] = c.S + ":" + c.K + "=" + c.V.String()
		}
	}
	sort.Strings(ss)
	return strings.Join(ss, " ")
}

func gcellsString(cs []GCell, dry bool) string {
	ss := make([]string, len(cs))
	for i, c := range cs {
		if dry {
			ss[i] = fmt.Sprintf("%s:%s", c.S, c.K)
		} else {
			ss[i] = c.S + ":" + c.K + "=" + provBag(c.V)
		}
	}
	sort.Strings(ss)
	return strings.Join(ss, " ")
}

// regByHome projects a registration order onto each home scope.
func regByHome(c *cat.Catalog, reg []string) string {
	m := map[string][]string{}
	for _, f := range reg {
		h := "?"
		if _, ok := c.Fns[f]; ok {
			h = c.Home(f)
		}
		m[h] = append(m[h], f)
	}
	var ks []string
	for k := range m {
		ks = append(ks, k)
	}
	sort.Strings(ks)
	var b strings.Builder
	for _, k := range ks {
		fmt.Fprintf(&b, "%s:%v ", k, m[k])
	}
	return b.String()
}

func compareSnap(c *cat.Catalog, dry bool, idx int, ctx string, w, g *Snap) []Divergence {
	var ds []Divergence
	add := func(kind, detail string) {
		ds = append(ds, Divergence{Kind: kind, Op: idx, Detail: ctx + ": " + detail})
	}
	w.Normalize()
	g.Normalize()
	if len(g.Foreign) > 0 {
		add("snap.foreign", strings.Join(g.Foreign, "; "))
	}
	if strSet(w.Created) != strSet(g.Created) {
		add("snap.created", fmt.Sprintf("want %v got %v", w.Created, g.Created))
	}
	if a, b := regByHome(c, w.Reg), regByHome(c, g.Reg); a != b {
		add("snap.reg", fmt.Sprintf("accepted constructors want %s got %s", a, b))
	}
	if strSet(w.Decs) != strSet(g.Decs) {
		add("snap.decs", fmt.Sprintf("want %v got %v", w.Decs, g.Decs))
	}
	if strSet(w.Called) != strSet(g.Called) {
		add("snap.called", fmt.Sprintf("want %v got %v", w.Called, g.Called))
	}
	if strSet(w.DCalled) != strSet(g.DCalled) {
		add("snap.dcalled", fmt.Sprintf("want %v got %v", w.DCalled, g.DCalled))
	}
	if a, b := cellsString(w.Vals, dry), cellsString(g.Vals, dry); a != b {
		add("snap.vals", fmt.Sprintf("want [%s] got [%s]", a, b))
	}
	if a, b := cellsString(w.DVals, dry), cellsString(g.DVals, dry); a != b {
		add("snap.dvals", fmt.Sprintf("want [%s] got [%s]", a, b))
	}
	if a, b := cellsString(w.Grps, dry), cellsString(g.Grps, dry); a != b {
		add("snap.grps", fmt.Sprintf("want [%s] got [%s]", a, b))
	}
	if a, b := gcellsString(w.DGrps, dry), gcellsString(g.DGrps, dry); a != b {
		add("snap.dgrps", fmt.Sprintf("want [%s] got [%s]", a, b))
	}
	return ds
}

func provStrings(ps []univ.Prov) []string {
	ss := make([]string, len(ps))
	for i, p := range ps {
		ss[i] = p.String()
	}
	sort.Strings(ss)
	return ss
}

func provBagS(ss []string) string { return strings.Join(ss, " ") }

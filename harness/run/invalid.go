package run

import "fmt"

func (r *Runner) buildInvalid(id string) (interface{}, *layout, error) {
	return nil, nil, fmt.Errorf("invalid-function classes not built yet (%s)", id)
}

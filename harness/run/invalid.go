package run

import (
	"fmt"
	"reflect"

	"go.uber.org/dig"

	"verif/harness/univ"
)

// InvalidClasses lists the classes of functions / options dig must reject; a catalog function
// with Inv set to one of them is built as the corresponding bad Go value (its flat lists are
// ignored). The specification says only: the verdict is "invalid" and nothing changes.
var InvalidClasses = []string{"nil", "nonfunc", "nilfunc", "ptrin", "outparam", "inresult", "noresult",
	"badopt", "unexported", "grpnotslice", "grpoptional", "namegroup", "backquote", "asnonptr", "asnil",
	"asunimpl", "flattenas", "emptygroup", "softresult", "flattennonslice", "embptrin", "errfield"}

// InvalidDecClasses are the classes usable for decorators (no options).
var InvalidDecClasses = []string{"nil", "nonfunc", "nilfunc", "ptrin", "outparam", "inresult",
	"badopt", "unexported", "grpnotslice", "emptygroup", "softresult", "decflatten", "decsingle"}

func fnOf(ins, outs []reflect.Type) interface{} {
	return reflect.MakeFunc(reflect.FuncOf(ins, outs, false), func([]reflect.Value) []reflect.Value {
		res := make([]reflect.Value, len(outs))
		for i, t := range outs {
			res[i] = reflect.Zero(t)
		}
		return res
	}).Interface()
}

func inWith(f SigField) reflect.Type  { return itemType(SigItem{K: "in", Fs: []SigField{f}}) }
func outWith(f SigField) reflect.Type { return itemType(SigItem{K: "out", Fs: []SigField{f}}) }

func (r *Runner) buildInvalid(id string) (interface{}, *layout, error) {
	f := r.Cat.Fns[id]
	t7 := univ.Type("T7")
	t0 := univ.Type("T0")
	l := &layout{fn: f}
	one := func(ins ...reflect.Type) interface{} { return fnOf(ins, []reflect.Type{t7}) }
	switch f.Inv {
	case "nil":
		return nil, l, nil
	case "nonfunc":
		return 42, l, nil
	case "nilfunc":
		var fn func() *univ.T7
		return fn, l, nil
	case "ptrin":
		return one(atomType("pIN1")), l, nil
	case "outparam":
		return one(atomType("OUT1")), l, nil
	case "embptrin":
		return one(atomType("EPI")), l, nil
	case "inresult":
		return fnOf(nil, []reflect.Type{atomType("IN1")}), l, nil
	case "noresult":
		return fnOf([]reflect.Type{t0}, []reflect.Type{errType}), l, nil
	case "badopt":
		return one(inWith(SigField{X: true, Ty: "T0", Opt: "maybe"})), l, nil
	case "unexported":
		return one(inWith(SigField{X: false, Ty: "T0"})), l, nil
	case "grpnotslice":
		return one(inWith(SigField{X: true, Ty: "T0", Grp: "g"})), l, nil
	case "grpoptional":
		return one(inWith(SigField{X: true, Ty: "sT0", Grp: "g", Opt: "true"})), l, nil
	case "emptygroup":
		return fnOf(nil, []reflect.Type{outWith(SigField{X: true, Ty: "sT0", Grp: ",flatten"})}), l, nil
	case "softresult":
		return fnOf(nil, []reflect.Type{outWith(SigField{X: true, Ty: "T0", Grp: "g,soft"})}), l, nil
	case "flattennonslice":
		return fnOf(nil, []reflect.Type{outWith(SigField{X: true, Ty: "T0", Grp: "g,flatten"})}), l, nil
	case "errfield":
		return fnOf(nil, []reflect.Type{outWith(SigField{X: true, Ty: "err"})}), l, nil
	case "decflatten":
		return fnOf(nil, []reflect.Type{outWith(SigField{X: true, Ty: "ssT0", Grp: "g,flatten"})}), l, nil
	case "decsingle":
		return fnOf(nil, []reflect.Type{outWith(SigField{X: true, Ty: "T0", Grp: "g"})}), l, nil
	case "namegroup":
		l.opts = []dig.ProvideOption{dig.Name("n"), dig.Group("g")}
		return fnOf(nil, []reflect.Type{t0}), l, nil
	case "backquote":
		l.opts = []dig.ProvideOption{dig.Name("a`b")}
		return fnOf(nil, []reflect.Type{t0}), l, nil
	case "asnonptr":
		l.opts = []dig.ProvideOption{dig.As(42)}
		return fnOf(nil, []reflect.Type{t0}), l, nil
	case "asnil":
		l.opts = []dig.ProvideOption{dig.As(nil)}
		return fnOf(nil, []reflect.Type{t0}), l, nil
	case "asunimpl":
		l.opts = []dig.ProvideOption{dig.As(new(univ.IX))}
		return fnOf(nil, []reflect.Type{t0}), l, nil
	case "flattenas":
		l.opts = []dig.ProvideOption{dig.Group("g,flatten"), dig.As(new(univ.I0))}
		return fnOf(nil, []reflect.Type{atomType("NS")}), l, nil
	}
	return nil, nil, fmt.Errorf("unknown invalid class %q of %s", f.Inv, id)
}

package run

import (
	"bytes"
	"encoding/json"
	"errors"
	"fmt"
	"reflect"
	"sort"
	"strings"

	"go.uber.org/dig"

	"verif/harness/univ"
)

// SigField, SigItem, Sig, SigOpts mirror the descriptors of spec/Sig.tla.
type SigField struct {
	X    bool   `json:"x"`
	Ty   string `json:"ty"`
	Name string `json:"name"`
	Opt  string `json:"opt"`
	Grp  string `json:"grp"`
}

type SigItem struct {
	K  string     `json:"k"`
	Ty string     `json:"ty"`
	Fs []SigField `json:"fs"`
	Iu string     `json:"iu"`
}

type Sig struct {
	Nf  string    `json:"nf"`
	Ps  []SigItem `json:"ps"`
	Var bool      `json:"var"`
	Vt  string    `json:"vt"`
	Rs  []SigItem `json:"rs"`
}

type SigOpts struct {
	Name  string `json:"name"`
	Group string `json:"group"`
	As    string `json:"as"`
	Loc   string `json:"loc"`
	Cb    bool   `json:"cb"`
}

type SigP struct {
	Ty   string `json:"ty"`
	Name string `json:"name"`
	Grp  string `json:"grp"`
	Opt  bool   `json:"opt"`
	Soft bool   `json:"soft"`
}

type SigR struct {
	Ty   string `json:"ty"`
	Name string `json:"name"`
	Grp  string `json:"grp"`
}

// SigLine is one enumerated case with the specification's verdicts and flat forms.
type SigLine struct {
	S   Sig     `json:"s"`
	O   SigOpts `json:"o"`
	Pv  string  `json:"pv"`
	Dv  string  `json:"dv"`
	Iv  string  `json:"iv"`
	Fp  []SigP  `json:"fp"`
	Fr  []SigR  `json:"fr"`
	Frd []SigR  `json:"frd"`
}

var (
	tIN1   = reflect.StructOf([]reflect.StructField{{Name: "In", Type: inType, Anonymous: true}, {Name: "A", Type: univ.Type("T1")}})
	tOUT1  = reflect.StructOf([]reflect.StructField{{Name: "Out", Type: outType, Anonymous: true}, {Name: "A", Type: univ.Type("T1")}})
	tEPI   = reflect.StructOf([]reflect.StructField{{Name: "In", Type: reflect.PtrTo(inType), Anonymous: true}, {Name: "A", Type: univ.Type("T1")}})
	tEPO   = reflect.StructOf([]reflect.StructField{{Name: "Out", Type: reflect.PtrTo(outType), Anonymous: true}, {Name: "A", Type: univ.Type("T1")}})
	tINOUT = reflect.StructOf([]reflect.StructField{{Name: "In", Type: inType, Anonymous: true}, {Name: "Out", Type: outType, Anonymous: true}, {Name: "A", Type: univ.Type("T1")}})
)

// Declared (named) shapes that reflect.StructOf cannot express: parameter / result objects that
// qualify only through the structs they embed, and an error type that is never nil.
type (
	InA struct {
		dig.In
		A *univ.T1
	}
	InB struct {
		dig.In
		B *univ.T0 `optional:"true"`
	}
	IN2 struct {
		InA
		InB
	}
	INE  struct{ InA }
	OutA struct {
		dig.Out
		A *univ.T1
	}
	OutB struct {
		dig.Out
		B *univ.T0
	}
	OUT2 struct {
		OutA
		OutB
	}
	ErS struct{ Code int }
)

func (ErS) Error() string { return "ErS" }

func atomType(a string) reflect.Type {
	switch a {
	case "IN2":
		return reflect.TypeOf(IN2{})
	case "INE":
		return reflect.TypeOf(INE{})
	case "OUT2":
		return reflect.TypeOf(OUT2{})
	case "erS":
		return reflect.TypeOf(ErS{})
	case "aT0":
		return reflect.ArrayOf(2, univ.Type("T0"))
	case "aV0":
		return reflect.ArrayOf(2, reflect.TypeOf(univ.V0{}))
	case "aBig":
		return reflect.TypeOf([1 << 62]struct{}{})
	case "aPB":
		return reflect.TypeOf((*[1 << 20]*[1 << 45]byte)(nil)).Elem()
	case "fnT":
		return reflect.TypeOf((func() *univ.T0)(nil))
	case "mpT":
		return reflect.TypeOf(map[string]*univ.T0(nil))
	case "chT":
		return reflect.TypeOf((chan *univ.T0)(nil))
	case "sT0":
		return reflect.SliceOf(univ.Type("T0"))
	case "ssT0":
		return reflect.SliceOf(reflect.SliceOf(univ.Type("T0")))
	case "sI0":
		return reflect.SliceOf(univ.Type("I0"))
	case "NS":
		return reflect.TypeOf(univ.NS(nil))
	case "err":
		return errType
	case "int":
		return reflect.TypeOf(0)
	case "IN1":
		return tIN1
	case "pIN1":
		return reflect.PtrTo(tIN1)
	case "OUT1":
		return tOUT1
	case "pOUT1":
		return reflect.PtrTo(tOUT1)
	case "EPI":
		return tEPI
	case "EPO":
		return tEPO
	case "INOUT":
		return tINOUT
	}
	return univ.Type(a)
}

func atomString(a string) string { return atomType(a).String() }

func fieldTag(f SigField) reflect.StructTag {
	var t []string
	if f.Name != "" {
		t = append(t, fmt.Sprintf(`name:%q`, f.Name))
	}
	if f.Opt != "" {
		t = append(t, fmt.Sprintf(`optional:%q`, f.Opt))
	}
	if f.Grp != "" {
		t = append(t, fmt.Sprintf(`group:%q`, f.Grp))
	}
	return reflect.StructTag(strings.Join(t, " "))
}

func itemType(it SigItem) reflect.Type {
	if it.K == "plain" {
		return atomType(it.Ty)
	}
	var fs []reflect.StructField
	switch it.K {
	case "in", "inl":
		tag := reflect.StructTag("")
		if it.Iu != "" {
			tag = reflect.StructTag(fmt.Sprintf(`ignore-unexported:%q`, it.Iu))
		}
		fs = append(fs, reflect.StructField{Name: "In", Type: inType, Anonymous: true, Tag: tag})
	case "out":
		fs = append(fs, reflect.StructField{Name: "Out", Type: outType, Anonymous: true})
	}
	for i, f := range it.Fs {
		sf := reflect.StructField{Type: atomType(f.Ty), Tag: fieldTag(f)}
		if f.X {
			sf.Name = fmt.Sprintf("F%d", i)
		} else {
			sf.Name = fmt.Sprintf("f%d", i)
			sf.PkgPath = "verif/harness/run"
		}
		fs = append(fs, sf)
	}
	if it.K == "inl" {
		// the embed comes last
		fs = append(fs[1:], fs[0])
	}
	return reflect.StructOf(fs)
}

// BuildSig manufactures the Go value a descriptor stands for.
func BuildSig(s Sig) interface{} {
	switch s.Nf {
	case "nil":
		return nil
	case "int":
		return 42
	case "struct":
		return struct{ A int }{1}
	case "ptrstruct":
		return &struct{ dig.In }{}
	case "nilfunc":
		var f func() *univ.T7
		return f
	}
	var ins, outs []reflect.Type
	for _, it := range s.Ps {
		ins = append(ins, itemType(it))
	}
	if s.Var {
		if s.Vt == "" || s.Vt == "str" {
			ins = append(ins, reflect.TypeOf([]string(nil)))
		} else {
			ins = append(ins, reflect.SliceOf(atomType(s.Vt)))
		}
	}
	for _, it := range s.Rs {
		outs = append(outs, itemType(it))
	}
	ft := reflect.FuncOf(ins, outs, s.Var)
	return reflect.MakeFunc(ft, func([]reflect.Value) []reflect.Value {
		res := make([]reflect.Value, len(outs))
		for i, t := range outs {
			res[i] = reflect.Zero(t)
		}
		return res
	}).Interface()
}

// sigLocTarget is the function LocationForPC designates in the "real" cases.
func sigLocTarget() {}

func sigProvideOpts(o SigOpts, sink *[]string) []dig.ProvideOption {
	var opts []dig.ProvideOption
	if o.Name != "" {
		opts = append(opts, dig.Name(o.Name))
	}
	if o.Group != "" {
		opts = append(opts, dig.Group(o.Group))
	}
	switch o.Loc {
	case "pc0":
		opts = append(opts, dig.LocationForPC(0))
	case "pc1":
		opts = append(opts, dig.LocationForPC(1))
	case "real":
		opts = append(opts, dig.LocationForPC(reflect.ValueOf(sigLocTarget).Pointer()))
	}
	if o.Cb {
		want := "reflect.makeFuncStub"
		if o.Loc == "real" {
			want = "verif/harness/run.sigLocTarget" // the function LocationForPC designates
		}
		opts = append(opts, dig.WithProviderCallback(func(ci dig.CallbackInfo) {
			if ci.Error != nil {
				_ = ci.Error.Error()
			}
			if (o.Loc == "" || o.Loc == "real") && ci.Name != want && sink != nil {
				*sink = append(*sink, fmt.Sprintf("callback Name want %q got %q", want, ci.Name))
			}
		}))
	}
	switch o.As {
	case "I0":
		opts = append(opts, dig.As(new(univ.I0)))
	case "IX":
		opts = append(opts, dig.As(new(univ.IX)))
	case "I0,I0":
		opts = append(opts, dig.As(new(univ.I0), new(univ.I0)))
	case "nil":
		opts = append(opts, dig.As(nil))
	case "int":
		opts = append(opts, dig.As(42))
	case "pT0":
		opts = append(opts, dig.As(new(univ.T0)))
	}
	return opts
}

func renderP(p SigP) string {
	var toks []string
	if p.Opt {
		toks = append(toks, "optional")
	}
	if p.Name != "" {
		toks = append(toks, fmt.Sprintf("name = %q", p.Name))
	}
	if p.Grp != "" {
		toks = append(toks, fmt.Sprintf("group = %q", p.Grp))
	}
	t := atomString(p.Ty)
	if len(toks) == 0 {
		return t
	}
	return fmt.Sprintf("%v[%v]", t, strings.Join(toks, ", "))
}

func renderR(r SigR) string {
	var toks []string
	if r.Name != "" {
		toks = append(toks, fmt.Sprintf("name = %q", r.Name))
	}
	if r.Grp != "" {
		toks = append(toks, fmt.Sprintf("group = %q", r.Grp))
	}
	t := atomString(r.Ty)
	if len(toks) == 0 {
		return t
	}
	return fmt.Sprintf("%v[%v]", t, strings.Join(toks, ", "))
}

// SigDiv is a disagreement between the front-end specification and the code.
type SigDiv struct {
	Kind   string `json:"kind"` // crash | verdict.provide | verdict.decorate | verdict.invoke | info | info.onreject | notrace | class | viz.misbehaved
	Detail string `json:"detail"`
}

// What a Fill*Info struct holds before the call under test: entries of an earlier use. An
// accepted call replaces them, a rejected one leaves them alone.
var (
	junkInputs  = []*dig.Input{{}, {}}
	junkOutputs = []*dig.Output{{}}
)

func isJunkIn(i *dig.Input) bool {
	for _, j := range junkInputs {
		if i == j {
			return true
		}
	}
	return false
}

func isJunkOut(o *dig.Output) bool {
	for _, j := range junkOutputs {
		if o == j {
			return true
		}
	}
	return false
}

func untouched(in []*dig.Input, out []*dig.Output) bool {
	return len(in) == len(junkInputs) && (len(in) == 0 || &in[0] == &junkInputs[0]) &&
		len(out) == len(junkOutputs) && (len(out) == 0 || &out[0] == &junkOutputs[0])
}

func seedContainer(state int) (*dig.Container, api, error) {
	c := dig.New()
	var a api = c
	switch state {
	case 1, 2:
		if err := c.Provide(func() (*univ.T5, *univ.T6) { return &univ.T5{}, &univ.T6{} }); err != nil {
			return nil, nil, err
		}
		type out struct {
			dig.Out
			A *univ.T5 `group:"g"`
			B *univ.T5 `name:"n"`
			C *univ.T6 `name:"n"`
		}
		if err := c.Provide(func() out { return out{A: &univ.T5{}, B: &univ.T5{}, C: &univ.T6{}} }); err != nil {
			return nil, nil, err
		}
		if state == 2 {
			a = c.Scope("child")
		}
	}
	return c, a, nil
}

func digRaw(c *dig.Container) string {
	var b strings.Builder
	for _, s := range dig.VerifSnapshot(c) {
		fmt.Fprintf(&b, "%s n=%d p=%d d=%d v=%d dv=%d g=%d dg=%d;", s.Name, len(s.Nodes), len(s.Providers), len(s.Decorators), len(s.Values), len(s.DecoratedValues), len(s.Groups), len(s.DecoratedGroups))
		var ls []string
		for k, ids := range s.Providers {
			ls = append(ls, fmt.Sprintf("%v/%s/%s=%d", k.Type, k.Name, k.Group, len(ids)))
		}
		for k := range s.Decorators {
			ls = append(ls, fmt.Sprintf("D%v/%s/%s", k.Type, k.Name, k.Group))
		}
		sort.Strings(ls)
		b.WriteString(strings.Join(ls, ","))
	}
	return b.String()
}

func vizOK(c *dig.Container) string {
	_, crash := guard(func() {
		var b bytes.Buffer
		dig.Visualize(c, &b)
		_ = c.String()
	})
	return crash
}

func eqStrings(a, b []string) bool {
	if len(a) != len(b) {
		return false
	}
	for i := range a {
		if a[i] != b[i] {
			return false
		}
	}
	return true
}

func sigClass(err error) (string, string) {
	if err == nil {
		return "ok", ""
	}
	var es ErS
	if errors.As(err, &es) {
		// the never-nil error type of the grammar: the signature was accepted, the function ran
		// and "returned an error"; it must be the root cause
		if _, ok := dig.RootCause(err).(ErS); !ok {
			return "ok", "sentinel-not-root"
		}
		return "ok", ""
	}
	e := &Entry{}
	(&Runner{}).classify(e, err, func() *ExecErr { return nil })
	v := e.V
	if v == "missing" {
		v = "ok" // the signature was accepted; the empty container lacks its dependencies
	}
	return v, e.Class
}

// consumerOf builds a function whose parameter object asks for every flat result in rs.
func consumerOf(rs []SigR) interface{} {
	fs := []reflect.StructField{{Name: "In", Type: inType, Anonymous: true}}
	seen := map[SigR]bool{}
	for _, r := range rs {
		if seen[r] {
			continue
		}
		seen[r] = true
		t := atomType(r.Ty)
		tag := ""
		if r.Name != "" {
			tag = fmt.Sprintf(`name:%q`, r.Name)
		}
		if r.Grp != "" {
			t = reflect.SliceOf(t)
			tag = fmt.Sprintf(`group:%q`, r.Grp)
			if r.Ty == "T0" {
				// the same group consumed as two different named slice types as well
				fs = append(fs, reflect.StructField{Name: fmt.Sprintf("R%dn", len(fs)), Type: reflect.TypeOf(univ.NS(nil)), Tag: reflect.StructTag(tag)})
				fs = append(fs, reflect.StructField{Name: fmt.Sprintf("R%dm", len(fs)), Type: reflect.TypeOf(univ.NS2(nil)), Tag: reflect.StructTag(tag)})
			}
		}
		fs = append(fs, reflect.StructField{Name: fmt.Sprintf("R%d", len(fs)), Type: t, Tag: reflect.StructTag(tag)})
	}
	ft := reflect.FuncOf([]reflect.Type{reflect.StructOf(fs)}, nil, false)
	return reflect.MakeFunc(ft, func([]reflect.Value) []reflect.Value { return nil }).Interface()
}

// followUp runs, after the call under test, a fixed continuation of valid operations on the
// same container: whatever the call under test was given, none of them may panic, the valid
// registrations must be accepted and resolvable, and an error must classify as dig's or the
// user's.  consume, if not nil, is invoked first (it asks for what the tested call registered).
func followUp(c *dig.Container, a api, consume interface{}, add func(k, d string), what string) {
	step := func(name string, mustOK bool, f func() error) {
		var err error
		_, crash := guard(func() { err = f() })
		switch {
		case crash != "":
			add("crash", fmt.Sprintf("%s: %s panicked: %s", what, name, crash))
		case err != nil && mustOK:
			add("followup", fmt.Sprintf("%s: %s failed: %v", what, name, err))
		case err != nil:
			if _, class := sigClass(err); class != "" && class != "rootdig" {
				add("class."+class, fmt.Sprintf("%s: %s: misclassified error: %v", what, name, err))
			}
		}
	}
	if consume != nil {
		step("Invoke of a consumer of the registered keys", false, func() error { return a.Invoke(consume) })
		step("second Invoke of the consumer", false, func() error { return a.Invoke(consume) })
	}
	step("Provide of a valid constructor", true, func() error { return a.Provide(func() *univ.T4 { return &univ.T4{} }) })
	step("Invoke of the valid constructor", true, func() error { return a.Invoke(func(*univ.T4) {}) })
	var later *dig.Scope
	step("Scope", true, func() error { later = a.Scope("later"); return nil })
	if later != nil {
		step("Provide in a scope created afterwards", true, func() error { return later.Provide(func(*univ.T4) *univ.T3 { return &univ.T3{} }) })
		step("Invoke in a scope created afterwards", true, func() error { return later.Invoke(func(*univ.T3, *univ.T4) {}) })
		if consume != nil {
			step("Invoke of the consumer from the later scope", false, func() error { return later.Invoke(consume) })
		}
	}
	if v := vizOK(c); v != "" {
		add("viz.misbehaved", what+": Visualize/String panicked after the follow-up: "+v)
	}
}

// TestSig runs the real Provide / Decorate / Invoke on the value of one enumerated case, in
// several container states, and compares with the specification's verdicts and flat forms.
func TestSig(l *SigLine) []SigDiv {
	var ds []SigDiv
	add := func(k, d string) {
		b, _ := json.Marshal(l.S)
		ob, _ := json.Marshal(l.O)
		ds = append(ds, SigDiv{Kind: k, Detail: d + " sig=" + string(b) + " opts=" + string(ob)})
	}
	var wantIn, wantOut, wantOutD []string
	for _, p := range l.Fp {
		wantIn = append(wantIn, renderP(p))
	}
	for _, r := range l.Fr {
		wantOut = append(wantOut, renderR(r))
	}
	for _, r := range l.Frd {
		wantOutD = append(wantOutD, renderR(r))
	}
	val := BuildSig(l.S)
	var cbNames []string // callback names that differ from the designated function
	for state := 0; state < 3; state++ {
		// Provide
		{
			c, a, err := seedContainer(state)
			if err != nil {
				add("harness", err.Error())
				return ds
			}
			before := digRaw(c)
			var perr error
			var pi dig.ProvideInfo
			pi.ID = -12345
			pi.Inputs, pi.Outputs = junkInputs, junkOutputs // a caller may hand in a struct it used before
			_, crash := guard(func() {
				perr = a.Provide(val, append(sigProvideOpts(l.O, &cbNames), dig.FillProvideInfo(&pi))...)
			})
			if crash != "" {
				add("crash", fmt.Sprintf("Provide panicked (state %d): %s", state, crash))
			} else {
				got, class := sigClass(perr)
				if NormVerdict(l.Pv) != got {
					add("verdict.provide", fmt.Sprintf("want %s got %s (state %d): %v", l.Pv, got, state, perr))
				} else if got == "ok" {
					in, out := infoStrings(pi.Inputs, pi.Outputs)
					if !eqStrings(in, wantIn) || !eqStrings(out, wantOut) {
						add("info", fmt.Sprintf("ProvideInfo want in=%q out=%q got in=%q out=%q", wantIn, wantOut, in, out))
					}
					if l.O.Loc != "" && state == 0 {
						// the ID identifies the function, whatever location it is reported under
						var plain dig.ProvideInfo
						o2 := l.O
						o2.Loc = ""
						c2, a2, _ := seedContainer(0)
						if err := a2.Provide(val, append(sigProvideOpts(o2, nil), dig.FillProvideInfo(&plain))...); err == nil && plain.ID != pi.ID {
							add("info.id", fmt.Sprintf("the same function has ID %d with LocationForPC and %d without", pi.ID, plain.ID))
						}
						_ = c2
					}
				} else {
					if pi.ID != -12345 || !untouched(pi.Inputs, pi.Outputs) {
						add("info.onreject", "ProvideInfo written by a rejected Provide")
					}
					if digRaw(c) != before {
						add("notrace", fmt.Sprintf("state changed by a rejected Provide (state %d)", state))
					}
					if strings.Contains(class, "dig-failure-root-not-dig") {
						add("class.dig-failure-root-not-dig", fmt.Sprintf("rejection of Provide has a non-dig root cause: %v", perr))
					}
				}
			}
			if v := vizOK(c); v != "" {
				add("viz.misbehaved", "Visualize/String panicked after Provide: "+v)
			}
			var consume interface{}
			if perr == nil && len(l.Fr) > 0 {
				consume = consumerOf(l.Fr)
			}
			followUp(c, a, consume, add, fmt.Sprintf("after Provide (state %d)", state))
		}
		// Decorate
		{
			c, a, _ := seedContainer(state)
			before := digRaw(c)
			var derr error
			var di dig.DecorateInfo
			di.ID = -12345
			di.Inputs, di.Outputs = junkInputs, junkOutputs
			_, crash := guard(func() { derr = a.Decorate(val, dig.FillDecorateInfo(&di)) })
			if crash != "" {
				add("crash", fmt.Sprintf("Decorate panicked (state %d): %s", state, crash))
			} else {
				got, class := sigClass(derr)
				if NormVerdict(l.Dv) != got {
					add("verdict.decorate", fmt.Sprintf("want %s got %s (state %d): %v", l.Dv, got, state, derr))
				} else if got == "ok" {
					in, out := infoStrings(di.Inputs, di.Outputs)
					if !eqStrings(in, wantIn) || !eqStrings(out, wantOutD) {
						add("info", fmt.Sprintf("DecorateInfo want in=%q out=%q got in=%q out=%q", wantIn, wantOutD, in, out))
					}
				} else {
					if di.ID != -12345 || !untouched(di.Inputs, di.Outputs) {
						add("info.onreject", "DecorateInfo written by a rejected Decorate")
					}
					if digRaw(c) != before {
						add("notrace", fmt.Sprintf("state changed by a rejected Decorate (state %d)", state))
					}
					if strings.Contains(class, "dig-failure-root-not-dig") {
						add("class.dig-failure-root-not-dig", fmt.Sprintf("rejection of Decorate has a non-dig root cause: %v", derr))
					}
				}
			}
			if v := vizOK(c); v != "" {
				add("viz.misbehaved", "Visualize/String panicked after Decorate: "+v)
			}
			var consume interface{}
			if derr == nil && len(l.Frd) > 0 {
				// a decorator returns a group as the whole slice: its consumers ask for the
				// element type (as a plain slice and as named slice types)
				frd := append([]SigR(nil), l.Frd...)
				for i := range frd {
					if frd[i].Grp != "" {
						switch frd[i].Ty {
						case "sT0", "NS":
							frd[i].Ty = "T0"
						case "sI0":
							frd[i].Ty = "I0"
						case "ssT0":
							frd[i].Ty = "sT0"
						}
					}
				}
				consume = consumerOf(frd)
			}
			followUp(c, a, consume, add, fmt.Sprintf("after Decorate (state %d)", state))
		}
		// Invoke
		{
			c, a, _ := seedContainer(state)
			var ierr error
			var ii dig.InvokeInfo
			ii.Inputs = junkInputs
			_, crash := guard(func() { ierr = a.Invoke(val, dig.FillInvokeInfo(&ii)) })
			if crash != "" {
				add("crash", fmt.Sprintf("Invoke panicked (state %d): %s", state, crash))
			} else {
				got, class := sigClass(ierr)
				if got != "ok" && got != "reject" {
					got = "ok"
				}
				// an invoked function whose last result is an error type that is never nil always
				// "returns an error": Invoke must hand it back
				lastErS := len(l.S.Rs) > 0 && l.S.Rs[len(l.S.Rs)-1].K == "plain" && l.S.Rs[len(l.S.Rs)-1].Ty == "erS"
				var es ErS
				if NormVerdict(l.Iv) != got {
					add("verdict.invoke", fmt.Sprintf("want %s got %s (state %d): %v", l.Iv, got, state, ierr))
				} else if got == "ok" && lastErS && len(l.Fp) == 0 && !errors.As(ierr, &es) {
					add("class.invokeerr-lost", fmt.Sprintf("the invoked function returned a non-nil error of a concrete type, Invoke returned %v (state %d)", ierr, state))
				} else if ierr == nil {
					in, _ := infoStrings(ii.Inputs, nil)
					if !eqStrings(in, wantIn) {
						add("info", fmt.Sprintf("InvokeInfo want in=%q got in=%q", wantIn, in))
					}
				} else if got == "reject" && strings.Contains(class, "dig-failure-root-not-dig") {
					add("class.dig-failure-root-not-dig", fmt.Sprintf("rejection of Invoke has a non-dig root cause: %v", ierr))
				}
			}
			if v := vizOK(c); v != "" {
				add("viz.misbehaved", "Visualize/String panicked after Invoke: "+v)
			}
			followUp(c, a, nil, add, fmt.Sprintf("after Invoke (state %d)", state))
		}
	}
	for _, n := range cbNames {
		add("cb.name", n)
	}
	return ds
}

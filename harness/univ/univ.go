// Package univ is the static type universe of the harness: a handful of Go types whose values
// carry a provenance record (which execution of which function produced them), so that "which
// value did the consumer receive" is decidable by content.
package univ

import (
	"fmt"
	"reflect"
	"strings"
)

// Prov says: produced by the N-th execution of function F, as its I-th flat result, element E
// (for flattened slices and decorated groups).
type Prov struct {
	F string `json:"f"`
	N int    `json:"n"`
	I int    `json:"i"`
	E int    `json:"e"`
}

// Zero is the provenance of a zero value.
var Zero = Prov{}

func (p Prov) String() string {
	if p == Zero {
		return "zero"
	}
	return fmt.Sprintf("%s#%d.%d.%d", p.F, p.N, p.I, p.E)
}

// Proved is implemented by every value type of the universe.
type Proved interface{ GetProv() Prov }

type (
	T0 struct{ P Prov }
	T1 struct{ P Prov }
	T2 struct{ P Prov }
	T3 struct{ P Prov }
	T4 struct{ P Prov }
	T5 struct{ P Prov }
	T6 struct{ P Prov }
	T7 struct{ P Prov }
)

func (t *T0) GetProv() Prov {
	if t == nil {
		return Zero
	}
	return t.P
}
func (t *T1) GetProv() Prov {
	if t == nil {
		return Zero
	}
	return t.P
}
func (t *T2) GetProv() Prov {
	if t == nil {
		return Zero
	}
	return t.P
}
func (t *T3) GetProv() Prov {
	if t == nil {
		return Zero
	}
	return t.P
}
func (t *T4) GetProv() Prov {
	if t == nil {
		return Zero
	}
	return t.P
}
func (t *T5) GetProv() Prov {
	if t == nil {
		return Zero
	}
	return t.P
}
func (t *T6) GetProv() Prov {
	if t == nil {
		return Zero
	}
	return t.P
}
func (t *T7) GetProv() Prov {
	if t == nil {
		return Zero
	}
	return t.P
}

// V0, V1: values of a non-pointer kind (structs passed by value). The zero value carries the zero
// provenance, which is exactly what an absent optional dependency of that type must be.
type (
	V0 struct{ P Prov }
	V1 struct{ P Prov }
)

func (v V0) GetProv() Prov { return v.P }
func (v V1) GetProv() Prov { return v.P }

// Interfaces for As. Every T implements all of them.
type (
	I0 interface {
		Proved
		IsI0()
	}
	I1 interface {
		Proved
		IsI1()
	}
	I2 interface {
		Proved
		IsI2()
	}
	// IX is implemented by nothing in the universe.
	IX interface {
		Proved
		isIX()
	}
)

func (*T0) IsI0() {}
func (*T1) IsI0() {}
func (*T2) IsI0() {}
func (*T3) IsI0() {}
func (*T4) IsI0() {}
func (*T5) IsI0() {}
func (*T6) IsI0() {}
func (*T7) IsI0() {}
func (*T0) IsI1() {}
func (*T1) IsI1() {}
func (*T2) IsI1() {}
func (*T3) IsI1() {}
func (*T4) IsI1() {}
func (*T5) IsI1() {}
func (*T6) IsI1() {}
func (*T7) IsI1() {}
func (*T0) IsI2() {}
func (*T1) IsI2() {}
func (*T2) IsI2() {}
func (*T3) IsI2() {}

// NS is a named slice type with methods (implements I0).
type NS []*T0

func (NS) GetProv() Prov { return Zero }
func (NS) IsI0()         {}

// NS2 is another named slice type over the same element type.
type NS2 []*T0

var types = map[string]reflect.Type{
	"T0": reflect.TypeOf((*T0)(nil)),
	"T1": reflect.TypeOf((*T1)(nil)),
	"T2": reflect.TypeOf((*T2)(nil)),
	"T3": reflect.TypeOf((*T3)(nil)),
	"T4": reflect.TypeOf((*T4)(nil)),
	"T5": reflect.TypeOf((*T5)(nil)),
	"T6": reflect.TypeOf((*T6)(nil)),
	"T7": reflect.TypeOf((*T7)(nil)),
	"V0": reflect.TypeOf(V0{}),
	"V1": reflect.TypeOf(V1{}),
	"I0": reflect.TypeOf((*I0)(nil)).Elem(),
	"I1": reflect.TypeOf((*I1)(nil)).Elem(),
	"I2": reflect.TypeOf((*I2)(nil)).Elem(),
	"IX": reflect.TypeOf((*IX)(nil)).Elem(),
}

var names = func() map[reflect.Type]string {
	m := map[reflect.Type]string{}
	for n, t := range types {
		m[t] = n
	}
	return m
}()

// Type returns the Go type standing for the type name of a key ("T3", "I0").
func Type(name string) reflect.Type {
	t, ok := types[name]
	if !ok {
		panic("univ: unknown type " + name)
	}
	return t
}

// TypeName is the inverse of Type; "" for types outside the universe.
func TypeName(t reflect.Type) string { return names[t] }

// AsPtr returns a pointer-to-interface value suitable for dig.As for interface name.
func AsPtr(name string) interface{} {
	return reflect.New(Type(name)).Interface()
}

// Key is a container key in the harness vocabulary: "T0", "T0/n" (named), "T0@g" (group).
type Key struct {
	T, Name, Group string
}

// ParseKey splits a key string.
// RealName is the Go string a model-level name stands for. The name "q" is realised with a
// double quote in it (dig forbids only backquotes in names): whatever dig prints it in (DOT
// node ids, Info strings, error texts) has to quote it properly.
func RealName(n string) string {
	if n == "q" {
		return "q\"x"
	}
	return n
}

// ModelName inverts RealName.
func ModelName(n string) string {
	if n == "q\"x" {
		return "q"
	}
	return n
}

func ParseKey(k string) Key {
	if i := strings.IndexByte(k, '/'); i >= 0 {
		return Key{T: k[:i], Name: k[i+1:]}
	}
	if i := strings.IndexByte(k, '@'); i >= 0 {
		return Key{T: k[:i], Group: k[i+1:]}
	}
	return Key{T: k}
}

func (k Key) String() string {
	switch {
	case k.Name != "":
		return k.T + "/" + k.Name
	case k.Group != "":
		return k.T + "@" + k.Group
	}
	return k.T
}

// New makes a value of concrete type name ct ("T3") carrying p.
func New(ct string, p Prov) reflect.Value {
	t := Type(ct)
	if t.Kind() == reflect.Struct {
		v := reflect.New(t).Elem()
		v.Field(0).Set(reflect.ValueOf(p))
		return v
	}
	if t.Kind() != reflect.Ptr {
		panic("univ: New of non-concrete type " + ct)
	}
	v := reflect.New(t.Elem())
	v.Elem().Field(0).Set(reflect.ValueOf(p))
	return v
}

// ProvOf reads the provenance out of a value of the universe (Zero for nil).
func ProvOf(v reflect.Value) Prov {
	if !v.IsValid() {
		return Zero
	}
	switch v.Kind() {
	case reflect.Ptr, reflect.Interface:
		if v.IsNil() {
			return Zero
		}
	}
	if !v.CanInterface() {
		return Prov{F: "?unreadable"}
	}
	if p, ok := v.Interface().(Proved); ok {
		return p.GetProv()
	}
	return Prov{F: "?foreign:" + v.Type().String()}
}

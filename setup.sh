#!/bin/bash
# Builds the harness offline from files on disk and checks that TLC starts.
export GOFLAGS=-mod=mod GOPROXY=off GOSUMDB=off GOTOOLCHAIN=local
set -e
cd /verif/harness
cp /repo/go.sum go.sum
mkdir -p /verif/.work/bin /verif/evidence /verif/replays
go build -tags verif -o /verif/.work/bin/check.setup ./cmd/check
rm -f /verif/.work/bin/check.setup
test -f /opt/veriftools/tla/tla2tools.jar && test -f /opt/veriftools/tla/CommunityModules-deps.jar && java -version >/dev/null 2>&1 || { echo "TLC is not available"; exit 1; }
echo "setup ok"

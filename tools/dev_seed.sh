#!/bin/bash
# usage: dev_seed.sh <dir with patch.diff> <args of `check` ...>      e.g.  dev_seed.sh seeded/C14a dev sig
# Development aid: builds the harness against a scratch worktree of /repo's HEAD with the seeded
# change applied and runs the given sub-command of the check binary (never touches /repo).
export GOFLAGS=-mod=mod GOPROXY=off GOSUMDB=off GOTOOLCHAIN=local
src="$(cd "$1" && pwd)"; shift
VROOT="$(cd "$(dirname "$0")/.." && pwd)"
wt="/tmp/devseed-$$"
git -C /repo worktree add -q --detach "$wt" HEAD || exit 2
cleanup() { git -C /repo worktree remove --force "$wt" >/dev/null 2>&1; rm -rf "/tmp/devseed-out-$$" "$VROOT/.work/bin/dev.$$"*; }
trap cleanup EXIT
"$(dirname "$0")/apply_seed.sh" "$wt" "$src/patch.diff" || { echo "patch does not apply"; exit 2; }
mkdir -p "$VROOT/.work/bin"
sed "s#=> /repo#=> $wt#" "$VROOT/harness/go.mod" > "$VROOT/.work/bin/dev.$$.mod"
cp "$VROOT/harness/go.sum" "$VROOT/.work/bin/dev.$$.sum"
(cd "$VROOT/harness" && go build -modfile="$VROOT/.work/bin/dev.$$.mod" -tags verif -o "$VROOT/.work/bin/dev.$$" ./cmd/check) || exit 2
VERIF_ROOT="$VROOT" VERIF_OUT_DIR="/tmp/devseed-out-$$" "$VROOT/.work/bin/dev.$$" "$@"

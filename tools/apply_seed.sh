#!/bin/bash
# usage: apply_seed.sh <worktree> <patch.diff>   -- applies a seeded change, tolerating the line
# offsets / neighbouring one-line hooks that later commits of /repo introduced.
wt="$1"; p="$2"
cd "$wt" || exit 2
git apply "$p" 2>/dev/null && exit 0
git apply -C1 "$p" 2>/dev/null && exit 0
git apply -3 "$p" >/dev/null 2>&1 && { git reset -q; exit 0; }
git checkout -q -- . 2>/dev/null
patch -p1 -F3 --no-backup-if-mismatch -s < "$p" >/dev/null 2>&1 && exit 0
git checkout -q -- . 2>/dev/null
exit 1

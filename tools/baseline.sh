#!/bin/bash
# Runs the repository's test-suite with the verif build tag OFF and checks that every test of the
# pinned baseline (tools/baseline_tests.txt, 766 tests) passes. Exit 0 iff all of them pass.
set -u
export GOFLAGS=-mod=mod GOPROXY=off GOSUMDB=off GOTOOLCHAIN=local
here="$(cd "$(dirname "$0")" && pwd)"
out="$(mktemp)"
(cd /repo && go test -json -vet=off -count=1 -timeout 25m ./... ) > "$out" 2>&1
python3 - "$out" "$here/baseline_tests.txt" <<'PY'
import json,sys
passed=set()
for l in open(sys.argv[1]):
    try: e=json.loads(l)
    except Exception: continue
    if e.get('Action')=='pass' and e.get('Test'):
        passed.add(e['Package']+'::'+e['Test'])
want=[l.strip() for l in open(sys.argv[2]) if l.strip()]
missing=[t for t in want if t not in passed]
print(f"baseline: {len(want)-len(missing)}/{len(want)} stable tests pass")
for t in missing[:20]: print("NOT PASSING:",t)
sys.exit(1 if missing else 0)
PY
rc=$?
rm -f "$out"
exit $rc

#!/bin/bash
# usage: vet_seed.sh <seed id> <dir with patch.diff + seeded_demo_test.go>
# Confirms, in a scratch worktree of /repo's HEAD, that the seeded change compiles (with and
# without the verif tag), passes the pinned baseline suite, that its demonstration fails with
# the change and passes without it. Prints one JSON line.
export GOFLAGS=-mod=mod GOPROXY=off GOSUMDB=off GOTOOLCHAIN=local
id="$1"; src="$(cd "$2" && pwd)"
tools="$(cd "$(dirname "$0")" && pwd)"
wt="/tmp/vet-$id-$$"
git -C /repo worktree add -q --detach "$wt" HEAD || exit 2
cleanup() { git -C /repo worktree remove --force "$wt" >/dev/null 2>&1; }
trap cleanup EXIT
cd "$wt"
applies=false; builds=false; suite=false; demo_fails=false; demo_passes=false
if "$tools/apply_seed.sh" "$wt" "$src/patch.diff"; then applies=true; fi
if go build ./... >/dev/null 2>&1 && go build -tags verif ./... >/dev/null 2>&1; then builds=true; fi
out="$(mktemp)"
go test -json -vet=off -count=1 ./... > "$out" 2>&1
if python3 - "$out" "$tools/baseline_tests.txt" <<'PY'
import json,sys
passed=set()
for l in open(sys.argv[1]):
    try: e=json.loads(l)
    except Exception: continue
    if e.get('Action')=='pass' and e.get('Test'): passed.add(e['Package']+'::'+e['Test'])
want=[l.strip() for l in open(sys.argv[2]) if l.strip()]
sys.exit(1 if [t for t in want if t not in passed] else 0)
PY
then suite=true; fi
rm -f "$out"
cp "$src/seeded_demo_test.go" ./seeded_demo_test.go
if ! go test -count=1 -run 'TestSeededDemo' . >/dev/null 2>&1; then demo_fails=true; fi
git checkout -q -- . 
if go test -count=1 -run 'TestSeededDemo' . >/dev/null 2>&1; then demo_passes=true; fi
rm -f seeded_demo_test.go
echo "{\"id\":\"$id\",\"applies\":$applies,\"builds\":$builds,\"suite_passes\":$suite,\"demo_fails_with_change\":$demo_fails,\"demo_passes_without\":$demo_passes}"

#!/usr/bin/env python3
"""usage: seed_pipeline.py <id>... | --all [--tier quick] [--retry]
Vets seeded changes delivered under /tmp/seeded/<id>/ (or already kept under /verif/seeded/<id>/),
keeps the confirmed ones as /verif/seeded/<id>/ and runs the check of their property against them."""
import json, os, re, shutil, subprocess, sys, time
V=os.environ.get('VROOT') or os.path.dirname(os.path.dirname(os.path.abspath(__file__)))
def sh(cmd, **kw):
    return subprocess.run(cmd, shell=True, capture_output=True, text=True, **kw)
def main():
    args=[a for a in sys.argv[1:] if not a.startswith('--')]
    tier='quick'
    if '--tier' in sys.argv: tier=sys.argv[sys.argv.index('--tier')+1]; args=[a for a in args if a!=tier]
    if '--all' in sys.argv:
        ids=set()
        for d in ['/tmp/seeded', V+'/seeded']:
            if os.path.isdir(d):
                ids |= {x for x in os.listdir(d) if re.fullmatch(r'[CF]\d\d[a-z]?', x) and os.path.isdir(os.path.join(d,x))}
        args=sorted(ids)
    for sid in args:
        kept=os.path.join(V,'seeded',sid)
        src=kept if os.path.isdir(kept) else os.path.join('/tmp/seeded',sid)
        metaf=os.path.join(kept,'meta.json')
        meta=json.load(open(metaf)) if os.path.exists(metaf) else {}
        if not os.path.exists(os.path.join(src,'patch.diff')): 
            print(sid,'no patch'); continue
        if 'vetted' not in meta:
            r=sh(f'{V}/tools/vet_seed.sh {sid} {src}')
            try: vet=json.loads(r.stdout.strip().splitlines()[-1])
            except Exception: print(sid,'vet failed',r.stdout[-300:],r.stderr[-300:]); continue
            ok=all(vet[k] for k in ['applies','builds','suite_passes','demo_fails_with_change','demo_passes_without'])
            print(sid,'vet',vet)
            if not ok: continue
            os.makedirs(kept,exist_ok=True)
            for f in ['patch.diff','seeded_demo_test.go','notes.md']:
                if os.path.exists(os.path.join(src,f)) and src!=kept: shutil.copy(os.path.join(src,f),kept)
            meta={'id':sid,'property':meta.get('property',sid[:3]),'vetted':vet,
                  'what_i_ran':'tools/vet_seed.sh: scratch worktree of /repo HEAD; git apply; go build (with and without -tags verif); full suite vs the 766 baseline tests; demo fails with the change and passes without it',
                  'needs':'see notes.md','checks':{}}
            notes=os.path.join(kept,'notes.md')
            if os.path.exists(notes): meta['summary']=open(notes).read()[:1500]
        prop=meta.get('property',sid[:3])
        key=f'{prop}:{tier}'
        if key in meta.get('checks',{}) and '--retry' not in sys.argv:
            print(sid,key,'already:',meta['checks'][key]['exit']); 
        else:
            t=time.time()
            r=sh(f'{V}/tools/try_seed.sh {kept} {prop} {tier}')
            m=re.search(r'exit=(\d+)',r.stdout)
            code=int(m.group(1)) if m else -1
            vio=[l.strip() for l in r.stdout.splitlines() if l.startswith('  ') and 'divergence' not in l][:2]
            meta.setdefault('checks',{})[key]={'exit':code,'detected':code==1,'wall_s':round(time.time()-t,1),'first':vio}
            print(sid,key,'exit',code,vio[:1])
        json.dump(meta,open(metaf,'w'),indent=1)
main()

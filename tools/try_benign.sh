#!/bin/bash
# usage: try_benign.sh <dir with patch.diff> [tier] [properties...]
# Applies a change that keeps every property true to a scratch worktree of /repo's HEAD and runs
# the checks against it: every one of them must exit 0 (no alarm). Prints one line per check.
src="$(cd "$1" && pwd)"; tier="${2:-smoke}"; shift; shift
props="$@"; [ -z "$props" ] && props="C01 C02 C03 C04 C05 C06 C07 C08 C09 C10 C11 C12 C13 C14 C15 C16 C17 C18 C19 C20"
VROOT="${VROOT:-$(cd "$(dirname "$0")/.." && pwd)}"
wt="/tmp/benignrepo-$$"
git -C /repo worktree add -q --detach "$wt" HEAD || exit 2
cleanup() { git -C /repo worktree remove --force "$wt" >/dev/null 2>&1; rm -rf "/tmp/benignout-$$"; }
trap cleanup EXIT
"$(dirname "$0")/apply_seed.sh" "$wt" "$src/patch.diff" || { echo "patch does not apply"; exit 2; }
(cd "$wt" && GOFLAGS=-mod=mod GOPROXY=off go build ./... && GOFLAGS=-mod=mod GOPROXY=off go build -tags verif ./...) || { echo "does not build"; exit 2; }
cd "$VROOT"
bad=0
for p in $props; do
  VERIF_OUT_DIR="/tmp/benignout-$$" VERIF_REPO="$wt" VERIF_SEED="${VERIF_SEED:-1}" ./check.sh "$p" "$tier" > "/tmp/benign-$p-$$.log" 2>&1
  rc=$?
  echo "$(basename $src) $p $tier exit=$rc $(grep -E '^(VIOLATION|  [a-z]+[.a-z]*:|INFRA)' /tmp/benign-$p-$$.log | head -4 | cut -c1-220 | tr '\n' '|')"
  [ $rc -ne 0 ] && bad=1
  rm -f "/tmp/benign-$p-$$.log"
done
exit $bad

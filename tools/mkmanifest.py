#!/usr/bin/env python3
"""Writes /verif/MANIFEST.json from the table below (kept in one place so that it stays valid)."""
import json, os
root = os.path.dirname(os.path.dirname(os.path.abspath(__file__)))
props = {
 "C01": ("4 C01", "TLC checks C01_Provenance / C08_Visible / C03_DepsFirst on every state of bounded catalog families (random small programs, Chain, Shadow) incl. nested parameter objects and re-entrant user functions; every behaviour TLC generates is replayed on the real container and every recorded random execution is validated by TLC, comparing the provenance of every argument of every executed user function; binding self-test (corrupted recordings must be rejected)."),
 "C02": ("4 C02", "TLC checks C02_NoReentry, C02_SameInstance, C02_CalledIffOk and the action property C02_NoExecAfterSuccess, also for constructors / decorators / invoked functions whose body calls Invoke again (Enter / NestBegin / NestReturn, Reenter family); conformance compares the multiset of executions, the execution number inside every received value, called markers and the outcome of every nested Invoke, with faults enabled; the traces of the repository's own test-suite (trace hooks) are validated by TLC."),
 "C03": ("4 C03", "TLC checks C03_OnlyClosure (for the innermost Invoke in progress), C03_DepsFirst, C03_RegistrationsSilent; conformance compares the set of executed user functions per API call and fails on any execution during Provide/Decorate/Scope/Visualize/String; repository test-suite traces validated by TLC."),
 "C04": ("4 C04", "TLC checks C04_MissingIsReal and C04_OptionalNeverHidesError; conformance compares missing-versus-ok verdicts, the missing keys and zero-versus-value for optional parameters, with gaps at every depth and faults, also across repeated Invokes after a failure; repository test-suite traces validated by TLC."),
 "C05": ("4 C05", "TLC checks C05_StackBound, C05_EagerAcyclic, C05_NoSpuriousCycle, C02_NoReentry, termination as liveness, and Graph.tla (the DFS of internal/graph against declarative cyclicity on all digraphs of 4 nodes); conformance compares cycle verdicts of Provide / Invoke / nested Invoke over digraph families in eager and deferred mode, validates the real IsAcyclic through a hook, and watches for process death in child processes."),
 "C06": ("4 C06", "TLC checks the action property C06_NoTrace; conformance compares the raw container state before and after every rejected registration (real versus real), the model state after it, and all later observations; every front-end case of Sig.tla is followed by a continuation of valid operations that must succeed."),
 "C07": ("4 C07", "TLC checks C07_NoPartial, C07_FailureLeavesNoTrace, C13_RootIsLogged with up to two faults per behaviour (error and panic, recover on/off); conformance compares provenance, counters, root causes, caches and on-stack markers after failures; repository test-suite traces validated by TLC; binding self-test."),
 "C08": ("4 C08", "TLC checks C08_Visible, C08_OwnView, C08_HomeCommit over scope trees with Export; conformance compares provenance from every scope, where values are cached, and Provide verdicts in scopes created before and after registrations."),
 "C09": ("4 C09", "TLC checks C09_OneProvider and the key clause of C01_Provenance with names, groups and As (Keys family); conformance compares duplicate verdicts and the provenance received under each key; Sig.tla enumerates the front end."),
 "C10": ("4 C10", "TLC checks C10_Groups (exact bag, feeders called) incl. nested parameter objects; conformance compares the bag of every group slice, feeder counters and group caches."),
 "C11": ("4 C11", "TLC checks C11_NoTrigger and the soft clause of C10_Groups with the build order defined on object paths (SoftNest family: every layout of a soft group and a single key over one, two and nested objects, with one fault so that parameters are built twice); conformance compares soft slices and the exec log."),
 "C12": ("4 C12", "TLC checks C12_OnePerScopeKey, the decorator clauses of C01_Provenance / C10_Groups; conformance compares provenance at consumers and decorators, decorator counters, decorated caches and Decorate verdicts."),
 "C13": ("4 C13", "TLC checks C13_RootIsLogged, C13_InvokeErrIsOwn, C04_OptionalNeverHidesError; the harness classifies every error of every API call and of every nested Invoke with the public API (RootCause, errors.Is/As, PanicError, IsCycleDetected) and compares with the specification's verdict and root cause; panic values are plain values and errors wrapping a dig error."),
 "C14": ("4 C14", "Sig.tla: TLC enumerates 11 583 signature / tag / option descriptors with the specification's verdict; each is built as a Go value and passed to the real Provide, Decorate and Invoke in three container states under a panic guard, followed by a continuation of valid operations; rejected inputs are checked for state changes (real versus real); Visualize and String are called after every operation of every history."),
 "C15": ("4 C15", "The specification is defined on flat signatures; the catalog generator assigns positional parameters, parameter objects nested to any depth, result objects, variadics and option-versus-tag encodings; every history is additionally re-recorded under other encodings and compared pairwise (real versus real); Sig.tla checks the flat forms of every enumerated descriptor through Fill*Info."),
 "C16": ("4 C16", "TLC explores every interleaving of registrations and scope creations for each catalog with and without DeferAcyclicVerification; the view merges orders, every merged history is replayed; recorded histories are re-executed under permuted registration blocks, moved scope creations and flipped verification timing and compared pairwise."),
 "C17": ("4 C17", "TLC checks C17_DrySilent on dry containers; conformance replays every behaviour on a DryRun container whose user functions record any call, comparing verdict classes; recorded histories are re-executed dry and compared pairwise; repository test-suite traces validated by TLC."),
 "C18": ("4 C18", "Sig.tla gives the flat parameter / result lists of every enumerated descriptor; Fill*Info results are compared entry by entry (strings, counts, order), must be untouched on rejection (every history), and constructor ids are compared over declared functions."),
 "C19": ("4 C19", "Viz.tla predicts the picture (clusters, result nodes, edges, dashed, group nodes and members) and the failure picture (root cause, transitive failures, what stays after pruning) of every state; the harness parses the DOT output with its own parser and compares as sets; LibGroups family (five to seven feeders of one group over declared functions, ordered registrations)."),
 "C20": ("4 C20", "TLC checks C20_OneToOne; conformance compares the CallbackInfo sequence with the exec log under a mock clock: one callback right after each execution, Error class, exact Runtime, Name (declared functions)."),
}
checks = []
for pid,(ref,text) in sorted(props.items()):
    checks.append({
        "property_id": pid,
        "quick_cmd": f"./check.sh {pid} quick",
        "thorough_cmd": f"./check.sh {pid} thorough",
        "evidence_file": f"/verif/evidence/{pid}.json",
        "replay_cmd_template": "./check.sh-replay {path}",
        "engine": "dig-tla",
        "level_claimed": {"category": "model_checking", "text": text, "design_ref": "DESIGN.md section " + ref},
        "level_note": "Trusted: TLC, the Go toolchain, the harness's comparator and type universe (harness/), the hooks in /repo/verif_hooks.go and /repo/verif_trace.go (build tag verif). Bounded: catalogs of <= 4 constructors / 3 scopes exhaustively, larger ones by seeded random traces.",
        "technique": "explicit TLA+ specification (spec/Dig.tla, Sig.tla, Viz.tla, Graph.tla) model-checked with TLC; TLC-generated behaviours replayed on the real code (spec/DigGen.tla) and executions recorded from the real code - random drivers and the repository's own test-suite under trace hooks - validated by TLC (spec/DigTrace.tla)",
    })
m = {
 "version": 1,
 "setup_cmd": "cd /verif && ./setup.sh",
 "hooks": {
   "guard": "verif",
   "enable": "go build -tags verif (harness module with replace go.uber.org/dig => /repo)",
   "baseline_off_cmd": "/verif/tools/baseline.sh",
   "source_commits": ["171c908", "b5c7647", "094fcbe", "6880942"],
   "add_only": True
 },
 "engines": [{"name": "dig-tla", "path": "/verif/spec", "serves_properties": sorted(props.keys()),
              "kind_free_text": "TLA+ specification of dig (Dig.tla) checked with TLC; conformance by replay of TLC behaviours (DigGen.tla) and validation of recorded traces (DigTrace.tla); Go harness in /verif/harness"}],
 "checks": checks,
 "notes": "Exit codes of every command: 0 held, 1 VIOLATION (reproduced in a fresh process, replay file written), 2 infrastructure problem (never a verdict). VERIF_SEED seeds catalog generation and the random drivers.",
 "not_applicable": []
}
json.dump(m, open(os.path.join(root, "MANIFEST.json"), "w"), indent=1)
print("wrote MANIFEST.json with", len(checks), "checks")

#!/bin/bash
# usage: try_seed.sh <dir with patch.diff> <property> [tier]   -- applies the patch to /repo, runs the check, reverts
src="$1"; prop="$2"; tier="${3:-quick}"
VROOT="${VROOT:-$(cd "$(dirname "$0")/.." && pwd)}"
cd /repo || exit 2
if [ -n "$(git status --porcelain)" ]; then echo "repo not clean"; exit 2; fi
git apply "$src/patch.diff" || { echo "patch does not apply"; exit 2; }
cd "$VROOT"
VERIF_SEED="${VERIF_SEED:-1}" ./check.sh "$prop" "$tier" > "/tmp/try-$prop-$$.log" 2>&1
rc=$?
git -C /repo checkout -- .
echo "== $(basename $src) $prop $tier exit=$rc"
grep -E "^(VIOLATION|  |INFRA|KNOWN)" "/tmp/try-$prop-$$.log" | cut -c1-400 | head -8
grep -E "^NOTE" "/tmp/try-$prop-$$.log" | cut -c1-200 | head -6
rm -f "/tmp/try-$prop-$$.log"
exit $rc

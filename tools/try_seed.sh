#!/bin/bash
# usage: try_seed.sh <dir with patch.diff> <property> [tier]
# Applies the patch to a scratch worktree of /repo's HEAD (never to /repo itself), runs the check of
# the property against that worktree, removes the worktree.
src="$1"; prop="$2"; tier="${3:-quick}"
VROOT="${VROOT:-$(cd "$(dirname "$0")/.." && pwd)}"
wt="/tmp/seedrepo-$$"
git -C /repo worktree add -q --detach "$wt" HEAD || exit 2
cleanup() { git -C /repo worktree remove --force "$wt" >/dev/null 2>&1; rm -rf "/tmp/seedout-$$"; }
trap cleanup EXIT
"$(dirname "$0")/apply_seed.sh" "$wt" "$src/patch.diff" || { echo "patch does not apply"; exit 2; }
cd "$VROOT"
VERIF_FAILFAST=1 VERIF_OUT_DIR="/tmp/seedout-$$" VERIF_REPO="$wt" VERIF_SEED="${VERIF_SEED:-1}" ./check.sh "$prop" "$tier" > "/tmp/try-$prop-$$.log" 2>&1
rc=$?
echo "== $(basename $src) $prop $tier exit=$rc"
grep -E "^(VIOLATION|  |INFRA|KNOWN)" "/tmp/try-$prop-$$.log" | grep -v "  divergence" | cut -c1-400 | head -8
grep -E "^NOTE" "/tmp/try-$prop-$$.log" | cut -c1-200 | head -6
rm -f "/tmp/try-$prop-$$.log"
exit $rc

package fx

import (
	"os"
	"os/exec"
	"testing"

	"go.uber.org/dig"
)

func TestF9(t *testing.T) {
	if os.Getenv("F9CHILD") == "1" {
		c := dig.New()
		c1 := c.Scope("c1")
		c2 := c.Scope("c2")
		must := func(err error) {
			if err != nil {
				os.Exit(3)
			}
		}
		must(c1.Provide(func(*X) *A { return &A{} }))
		must(c2.Provide(func(*B) *X { return &X{} }, dig.Export(true)))
		must(c2.Provide(func(*Y) *B { return &B{} }))
		must(c1.Provide(func(*A) *Y { return &Y{} }, dig.Export(true)))
		err := c1.Invoke(func(*A) {})
		if err != nil && dig.IsCycleDetected(err) {
			os.Exit(0)
		}
		os.Exit(4)
	}
	cmd := exec.Command(os.Args[0], "-test.run=TestF9$")
	cmd.Env = append(os.Environ(), "F9CHILD=1")
	out, err := cmd.CombinedOutput()
	if err != nil {
		if len(out) > 300 {
			out = out[:300]
		}
		t.Fatalf("child: %v\n%s", err, out)
	}
}

package fx

import (
	"errors"
	"testing"

	"go.uber.org/dig"
)

type A struct{ v int }
type B struct{ v int }
type C struct{ v int }
type X struct{}
type Y struct{}
type I interface{ M() }
type NS []*A

func (NS) M() {}

func noPanic(t *testing.T, f func()) {
	t.Helper()
	defer func() {
		if p := recover(); p != nil {
			t.Fatalf("panic: %v", p)
		}
	}()
	f()
}

func TestF1(t *testing.T) {
	c := dig.New()
	noPanic(t, func() {
		if c.Decorate(nil) == nil {
			t.Fatal("nil accepted")
		}
	})
	noPanic(t, func() {
		if c.Decorate(42) == nil {
			t.Fatal("42 accepted")
		}
	})
	noPanic(t, func() {
		if c.Decorate(struct{}{}) == nil {
			t.Fatal("struct accepted")
		}
	})
}

func TestF2(t *testing.T) {
	c := dig.New()
	c.Provide(func() *A { return &A{1} })
	c.Provide(func() *B { return &B{1} })
	if err := c.Decorate(func(b *B) *B { return &B{2} }); err != nil {
		t.Fatal(err)
	}
	if err := c.Decorate(func(a *A, b *B) (*A, *B) { return &A{3}, &B{3} }); err == nil {
		t.Fatal("conflict accepted")
	}
	if err := c.Invoke(func(a *A) {
		if a.v != 1 {
			t.Fatalf("A decorated by rejected decorator: %d", a.v)
		}
	}); err != nil {
		t.Fatal(err)
	}
}

func TestF3(t *testing.T) {
	c := dig.New()
	c.Provide(func() *A { return &A{1} })
	n := 0
	c.Decorate(func(a *A) (*A, error) {
		n++
		if n == 1 {
			return &A{99}, errors.New("boom")
		}
		return &A{2}, nil
	})
	if err := c.Invoke(func(a *A) {}); err == nil {
		t.Fatal("expected error")
	}
	err := c.Invoke(func(a *A) {
		if a.v != 2 {
			t.Fatalf("got %d want 2", a.v)
		}
	})
	if err != nil {
		t.Fatal(err)
	}
	if n != 2 {
		t.Fatalf("decorator ran %d times", n)
	}
}

func TestF3missing(t *testing.T) {
	c := dig.New()
	c.Provide(func() *A { return &A{1} })
	c.Decorate(func(a *A, b *B) *A { return &A{2} })
	if err := c.Invoke(func(a *A) {}); err == nil {
		t.Fatal("expected missing")
	}
	c.Provide(func() *B { return &B{1} })
	if err := c.Invoke(func(a *A) {
		if a.v != 2 {
			t.Fatalf("decorator skipped: got %d", a.v)
		}
	}); err != nil {
		t.Fatal(err)
	}
}

func TestF4(t *testing.T) {
	c := dig.New()
	ch := c.Scope("child")
	// child: B <- A ; root: A <- B  => cycle visible only in child
	if err := ch.Provide(func(a *A) *B { return &B{1} }); err != nil {
		t.Fatal(err)
	}
	if err := c.Provide(func(b *B) *A { return &A{1} }); err == nil {
		t.Fatal("expected cycle")
	}
	if err := c.Provide(func() *A { return &A{7} }); err != nil {
		t.Fatalf("good ctor rejected: %v", err)
	}
	noPanic(t, func() {
		if err := ch.Invoke(func(b *B) {}); err != nil {
			t.Fatal(err)
		}
	})
}

type gin struct {
	dig.In
	As []*A `group:"g"`
}

func TestF5(t *testing.T) {
	c := dig.New()
	if err := c.Provide(func(*C) *X { return &X{} }); err != nil {
		t.Fatal(err)
	}
	if err := c.Provide(func(g gin) *B { return &B{} }); err != nil {
		t.Fatal(err)
	}
	ch := c.Scope("child")
	if err := ch.Provide(func(b *B) *C { return &C{} }); err != nil {
		t.Fatalf("fabricated cycle: %v", err)
	}
}

func TestF6(t *testing.T) {
	c := dig.New()
	noPanic(t, func() {
		c.Provide(func() NS { return nil }, dig.Group("g,flatten"), dig.As(new(I)))
	})
}

type optBad struct {
	dig.In
	A *A `optional:"maybe"`
}

func TestF7(t *testing.T) {
	c := dig.New()
	err := c.Invoke(func(optBad) {})
	if err == nil {
		t.Fatal("accepted")
	}
	var de dig.Error
	if !errors.As(dig.RootCause(err), &de) {
		t.Fatalf("root cause %T not dig.Error", dig.RootCause(err))
	}
}

type emptyGroupOut struct {
	dig.Out
	As []*A `group:",flatten"`
}

func TestF8(t *testing.T) {
	c := dig.New()
	err := c.Provide(func() emptyGroupOut { return emptyGroupOut{} })
	noPanic(t, func() {
		err2 := c.Invoke(func(a *A) {})
		if err == nil && err2 == nil {
			t.Fatal("group feeder satisfied single *A")
		}
	})
}

func TestF10(t *testing.T) {
	c := dig.New()
	runs := 0
	c.Provide(func() *C { return &C{1} })
	c.Provide(func(*C) *A { runs++; return &A{runs} })
	c.Decorate(func(*A) *C { return &C{2} })
	err := c.Invoke(func(*A) {})
	if runs > 1 {
		t.Fatalf("P ran %d times (err=%v)", runs, err)
	}
	if err != nil && !dig.IsCycleDetected(err) {
		t.Fatalf("unexpected error %v", err)
	}
}

func TestF11(t *testing.T) {
	c := dig.New()
	var f func() *A
	noPanic(t, func() {
		if c.Provide(f) == nil {
			t.Fatal("nil func accepted by Provide")
		}
	})
	noPanic(t, func() {
		if c.Invoke(f) == nil {
			t.Fatal("nil func accepted by Invoke")
		}
	})
	noPanic(t, func() {
		if c.Decorate(f) == nil {
			t.Fatal("nil func accepted by Decorate")
		}
	})
}

type f12In struct {
	dig.In
	G []*A `group:"g"`
}

type f12Out struct {
	dig.Out
	V [][]*A `group:"g,flatten"`
}

func TestF12(t *testing.T) {
	c := dig.New()
	c.Provide(func() *A { return &A{1} }, dig.Group("g"))
	err := c.Decorate(func(in f12In) f12Out { return f12Out{V: [][]*A{in.G}} })
	noPanic(t, func() {
		err2 := c.Invoke(func(in f12In) {})
		if err == nil && err2 != nil {
			t.Fatalf("decorator accepted, then Invoke failed: %v", err2)
		}
	})
}

// F13: the "did you mean" suggestions for a missing array type are built with
// reflect.ArrayOf, which panics when the suggested array cannot exist.
func TestF13(t *testing.T) {
	c := dig.New()
	noPanic(t, func() {
		if c.Invoke(func([1 << 62]struct{}) {}) == nil {
			t.Fatal("Invoke of a missing type succeeded")
		}
	})
	noPanic(t, func() {
		if c.Invoke(func([1 << 20]*[1 << 45]byte) {}) == nil {
			t.Fatal("Invoke of a missing type succeeded")
		}
	})
	noPanic(t, func() {
		c.Provide(func([1 << 62]struct{}) *A { return &A{1} })
		if c.Invoke(func(*A) {}) == nil {
			t.Fatal("Invoke of a missing type succeeded")
		}
	})
}
